---------------------------- MODULE WireMutate ----------------------------
(***************************************************************************************************************)
(* C02 - the mutation space of the Message wire grammar and its verdict envelope.                              *)
(*                                                                                                             *)
(* The wire format is a tree of length-prefixed nodes (Message.cpp Flatten(): "Format: 0. protocol revision,   *)
(* 1. what, 2. number of entries, 3. entry name length, 4. entry name (flattened String = chars + NUL),        *)
(* 5. entry type code, 6. entry data length, 7. entry data"; entry data of variable-size types: item count,    *)
(* then per item a length word and the item; Message items: no count, per item a length word and a flattened   *)
(* Message; fixed-size types: the items back to back).  Around it: the 8-byte stream frame of MessageIOGateway *)
(* (body length, encoding), the payload-only encoding of Message::TemplatedFlatten (what, then per template    *)
(* field the bare items / count + length-prefixed items / count + length-prefixed payload-only sub-Messages),  *)
(* the 24-byte fragment header of PacketTunnelIOGateway and the 12-byte packet header + 4-byte chunk headers   *)
(* of MiniPacketTunnelIOGateway.                                                                               *)
(*                                                                                                             *)
(* Enc*  : abstract value -> bytes (the grammar, written structurally).                                        *)
(* Map*  : abstract value -> the table of its words (offset, kind, value, bytes left in the enclosing node,    *)
(*         end of the content a length word governs).                                                          *)
(* Rd*   : bytes -> verdict + decoded value; written independently of Enc as a reader of hostile bytes.        *)
(*         "A"  derivable by the grammar exactly as Flatten() writes it            -> MustAccept(value)        *)
(*         "R"  a word / name / item that the declared counts and lengths require lies beyond the END OF THE   *)
(*              SUPPLIED BUFFER, or a documented constant is wrong (protocol version, NUL after a field name,  *)
(*              encoding id, tunnel magic)                                         -> MustReject               *)
(*         "RB" it lies inside the buffer but beyond the end of the enclosing length-prefixed node (a nested   *)
(*              length disagrees with its parent; readers with a budget reject)    -> MustReject for readers   *)
(*                                                                                    that keep a budget       *)
(*         "E"  the documentation is silent (slack bytes, zero items, clamped data length, duplicate names,    *)
(*              bool bytes other than 0/1, strings without NUL, ...)               -> Either                   *)
(*         "I"  (streams) the frame is not complete yet                            -> nothing is delivered     *)
(* The walk stops at the first construct that is not "A"; the verdict is therefore the weakest claim that is   *)
(* certain at that point (an "E" is never sharpened by what follows).                                          *)
(*                                                                                                             *)
(* The state space IS the quantifier of the property: Init = every (encoding, base) of the menu, Next = every  *)
(* truncation (Trunc), every boundary value in every word (Word), every single splice where a nested node and  *)
(* its parent disagree (Splice), every String terminator replaced (Term).  TLC checks the claims at the bottom *)
(* on every mutant and (EMIT) prints each one as a JSON line for harness/mut.cpp, mut_mini.c, mut_micro.c.     *)
(* Wrong # {} switches on one deliberate error (in Enc, in Rd or in the mutation operator); checks/c02.py runs *)
(* them to show that the invariants can fail.  TLC's -coverage mode is unusable here (deep recursion).         *)
(***************************************************************************************************************)
EXTENDS Integers, Sequences, FiniteSets, TLC, Json

CONSTANTS MENU,       \* "tiny" | "quick" | "thorough"
          LO, HI,     \* this run enumerates the bases LO..HI of the menu (and the tunnel packets iff LO = 1)
          EMIT,       \* TRUE: print every mutant
          Wrong       \* deliberate errors, to show that the invariants can fail; {} in real runs

VARIABLE mu           \* the current base or mutant (a record, see Mk)

----------------------------------------------------------------------------------------------------------------
(* bytes and words *)

HUGE == 2147483647                          \* TLC integers are 32-bit: every word >= 2^31 is read as HUGE
W(n) == <<n % 256, (n \div 256) % 256, (n \div 65536) % 256, n \div 16777216>>       \* 0 <= n < 2^31
V(b, p) == IF b[p+4] >= 128 THEN HUGE ELSE b[p+1] + 256*b[p+2] + 65536*b[p+3] + 16777216*b[p+4]   \* word at offset p
Bytes(b, p, n) == SubSeq(b, p+1, p+n)       \* n bytes at offset p
Put(b, off, w) == SubSeq(b, 1, off) \o w \o SubSeq(b, off+5, Len(b))

RECURSIVE Cat(_)
Cat(ss) == IF ss = <<>> THEN <<>> ELSE Head(ss) \o Cat(Tail(ss))
RECURSIVE Rep(_, _)
Rep(x, n) == IF n = 0 THEN <<>> ELSE <<x>> \o Rep(x, n-1)
HasNul(s) == \E j \in 1..Len(s) : s[j] = 0

PM00   == 1347235888
ENC0   == 1164862256                        \* MUSCLE_MESSAGE_ENCODING_DEFAULT; +1..+9 are the zlib levels
TMAGIC == 1114989680                        \* 'Budp'
MMAGIC == 1836345197                        \* 'mtgm'

TC == [bool |-> 1112493900, double |-> 1145195589, float |-> 1179406164, int64 |-> 1280069191, int32 |-> 1280265799,
       int16 |-> 1397248596, int8 |-> 1113150533, message |-> 1297303367, pointer |-> 1347310674, point |-> 1112559188,
       rect |-> 1380270932, string |-> 1129534546, raw |-> 1380013908, tag |-> 1297367367, blob |-> 1112297282]
FixSize(tc) == CASE tc = TC.bool -> 1 [] tc = TC.int8 -> 1 [] tc = TC.int16 -> 2 [] tc = TC.int32 -> 4 [] tc = TC.float -> 4
                 [] tc = TC.int64 -> 8 [] tc = TC.double -> 8 [] tc = TC.point -> 8 [] tc = TC.rect -> 16 [] OTHER -> 0
NonFlat(tc) == tc \in {TC.tag, TC.pointer}  \* "will not be flattened" / "in-mem-only": never on the wire

----------------------------------------------------------------------------------------------------------------
(* abstract values: [what: word, fields: Seq([name: bytes, tc: word, items: Seq(item)])]; words are kept as 4-tuples *)

Msg(what, fields) == [what |-> W(what), fields |-> fields]
Fld(name, t, items) == [name |-> name, tc |-> W(TC[t]), items |-> items]
TCv(f) == V(f.tc, 0)

RECURSIVE EncMsg(_), EncFields(_, _), EncPayload(_), EncSubs(_, _)
EncStr(s)  == W(Len(s)+1) \o s \o <<0>>
EncName(s) == IF "enc_name_without_nul" \in Wrong THEN W(Len(s)) \o s ELSE EncStr(s)
EncRaw(s)  == W(Len(s)) \o s
EncSubs(items, i) == IF i > Len(items) THEN <<>> ELSE LET e == EncMsg(items[i]) IN W(Len(e)) \o e \o EncSubs(items, i+1)
EncPayload(f) ==
   LET tc == TCv(f) IN
   IF FixSize(tc) > 0 THEN Cat(f.items)
   ELSE IF tc = TC.message THEN EncSubs(f.items, 1)
   ELSE IF tc = TC.string THEN W(Len(f.items)) \o Cat([i \in 1..Len(f.items) |-> EncStr(f.items[i])])
   ELSE W(Len(f.items)) \o Cat([i \in 1..Len(f.items) |-> EncRaw(f.items[i])])
EncFields(fs, i) == IF i > Len(fs) THEN <<>>
                    ELSE LET p == EncPayload(fs[i]) IN EncName(fs[i].name) \o fs[i].tc \o W(Len(p)) \o p \o EncFields(fs, i+1)
EncMsg(m) == W(PM00) \o m.what \o W(Len(m.fields)) \o EncFields(m.fields, 1)

(* payload-only encoding, the template being the Message itself *)
RECURSIVE EncT(_), EncTFields(_, _), EncTSubs(_, _)
EncTSubs(items, i) == IF i > Len(items) THEN <<>> ELSE LET e == EncT(items[i]) IN W(Len(e)) \o e \o EncTSubs(items, i+1)
EncTFields(fs, i) ==
   IF i > Len(fs) THEN <<>>
   ELSE LET f == fs[i]  tc == TCv(f) IN
        (IF FixSize(tc) > 0 THEN Cat(f.items)
         ELSE IF tc = TC.message THEN W(Len(f.items)) \o EncTSubs(f.items, 1)
         ELSE EncPayload(f)) \o EncTFields(fs, i+1)
EncT(m) == m.what \o EncTFields(m.fields, 1)

EncFrame(body) == W(Len(body)) \o W(ENC0) \o body
EncFrag(id, off, chunk, total) == W(TMAGIC) \o W(0) \o W(id) \o W(off) \o W(Len(chunk)) \o W(total) \o chunk
EncMini(chunks) == W(MMAGIC) \o W(0) \o W(7) \o Cat([i \in 1..Len(chunks) |-> W(Len(chunks[i])) \o chunks[i]])

----------------------------------------------------------------------------------------------------------------
(* word tables.  e = bytes between the end of the word and the end of the enclosing node; ce = end offset of the
   content a length word governs (-1 for words that are not lengths); d = nesting depth *)

Wd(k, off, n, end, ce, d) == [k |-> k, off |-> off, n |-> n, e |-> end - (off+4), ce |-> ce, d |-> d, z |-> FALSE]
WdZ(k, off, n, end, ce, d) == [Wd(k, off, n, end, ce, d) EXCEPT !.z = TRUE]      \* z: the content ends with the NUL of a flattened String

RECURSIVE MapMsg(_, _, _, _), MapFields(_, _, _, _, _), MapSubs(_, _, _, _, _), MapVar(_, _, _, _, _, _)
MapVar(items, i, off, end, isStr, d) ==
   IF i > Len(items) THEN <<>>
   ELSE LET l == Len(items[i]) + (IF isStr THEN 1 ELSE 0) IN
        <<IF isStr THEN WdZ("itemlen", off, l, end, off+4+l, d) ELSE Wd("itemlen", off, l, end, off+4+l, d)>> \o MapVar(items, i+1, off+4+l, end, isStr, d)
MapSubs(items, i, off, end, d) ==
   IF i > Len(items) THEN <<>>
   ELSE LET l == Len(EncMsg(items[i])) IN
        <<Wd("msglen", off, l, end, off+4+l, d)>> \o MapMsg(items[i], off+4, off+4+l, d+1) \o MapSubs(items, i+1, off+4+l, end, d)
MapFields(fs, i, off, end, d) ==
   IF i > Len(fs) THEN <<>>
   ELSE LET f == fs[i]  L == Len(f.name)+1  P == Len(EncPayload(f))  po == off+4+L+8  tc == TCv(f) IN
        <<WdZ("namelen", off, L, end, off+4+L, d), Wd("type", off+4+L, tc, end, -1, d), Wd("paylen", off+8+L, P, end, po+P, d)>>
        \o (IF FixSize(tc) > 0 THEN <<>>
            ELSE IF tc = TC.message THEN MapSubs(f.items, 1, po, po+P, d)
            ELSE <<Wd("count", po, Len(f.items), po+P, -1, d)>> \o MapVar(f.items, 1, po+4, po+P, tc = TC.string, d))
        \o MapFields(fs, i+1, po+P, end, d)
MapMsg(m, off, end, d) ==
   <<Wd("ver", off, PM00, end, -1, d), Wd("what", off+4, V(m.what, 0), end, -1, d), Wd("nfields", off+8, Len(m.fields), end, -1, d)>>
   \o MapFields(m.fields, 1, off+12, end, d)

RECURSIVE MapT(_, _, _, _), MapTFields(_, _, _, _, _), MapTSubs(_, _, _, _, _)
MapTSubs(items, i, off, end, d) ==
   IF i > Len(items) THEN <<>>
   ELSE LET l == Len(EncT(items[i])) IN
        <<Wd("msglen", off, l, end, off+4+l, d)>> \o MapT(items[i], off+4, off+4+l, d+1) \o MapTSubs(items, i+1, off+4+l, end, d)
MapTFields(fs, i, off, end, d) ==
   IF i > Len(fs) THEN <<>>
   ELSE LET f == fs[i]  tc == TCv(f)  n == Len(EncTFields(<<f>>, 1)) IN
        (IF FixSize(tc) > 0 THEN <<>>
         ELSE IF tc = TC.message THEN <<Wd("count", off, Len(f.items), end, -1, d)>> \o MapTSubs(f.items, 1, off+4, end, d)
         ELSE <<Wd("count", off, Len(f.items), end, -1, d)>> \o MapVar(f.items, 1, off+4, end, tc = TC.string, d))
        \o MapTFields(fs, i+1, off+n, end, d)
MapT(m, off, end, d) == <<Wd("what", off, V(m.what, 0), end, -1, d)>> \o MapTFields(m.fields, 1, off+4, end, d)

MapFrame(body) == <<Wd("framelen", 0, Len(body), 8+Len(body), 8+Len(body), 0), Wd("enc", 4, ENC0, 8+Len(body), -1, 0)>>
MapFrag(off0, id, off, chunk, total, end) ==
   <<Wd("magic", off0, TMAGIC, end, -1, 0), Wd("sexid", off0+4, 0, end, -1, 0), Wd("msgid", off0+8, id, end, -1, 0),
     Wd("fragoff", off0+12, off, end, -1, 0), Wd("chunklen", off0+16, Len(chunk), end, off0+24+Len(chunk), 0), Wd("totallen", off0+20, total, end, -1, 0)>>
RECURSIVE MapMiniChunks(_, _, _, _)
MapMiniChunks(chunks, i, off, end) ==
   IF i > Len(chunks) THEN <<>>
   ELSE <<Wd("chunklen", off, Len(chunks[i]), end, off+4+Len(chunks[i]), 0)>> \o MapMiniChunks(chunks, i+1, off+4+Len(chunks[i]), end)
MapMini(chunks, end) == <<Wd("magic", 0, MMAGIC, end, -1, 0), Wd("sexid", 4, 0, end, -1, 0), Wd("levelid", 8, 7, end, -1, 0)>> \o MapMiniChunks(chunks, 1, 12, end)

----------------------------------------------------------------------------------------------------------------
(* the reader of hostile bytes.  lim = end of the enclosing node, bend = end of the supplied buffer *)

NoVal == <<>>
Res(v, p, why, val) == [v |-> v, p |-> p, why |-> why, val |-> val, cl |-> ""]
   \* cl: "" or what a reader that does NOT clamp a field's data length to the enclosing node says about the first such field ("R" / "RB")
Miss(need, p, lim, bend) ==     \* something that is needed does not fit: inside the buffer -> RB, beyond it -> R
   IF need <= lim - p THEN "ok" ELSE IF need <= bend - p THEN "RB" ELSE "R"
Fail(need, p, lim, bend, why) == Res(Miss(need, p, lim, bend), p, why, NoVal)
Fits(need, p, lim, bend) == Miss(need, p, lim, bend) = "ok"
Weaker(x, y) == IF x = "" THEN y ELSE IF y = "" THEN x ELSE IF "RB" \in {x, y} THEN "RB" ELSE "R"
WithCl(r, cl) ==     \* combine the verdict of the clamping reading with the other reading's
   IF cl = "" THEN r
   ELSE IF r.v = "A" THEN [r EXCEPT !.cl = Weaker(r.cl, cl)]
   ELSE IF r.v \in {"R", "RB"} THEN [r EXCEPT !.v = Weaker(r.v, cl)]
   ELSE r

RECURSIVE RdMsg(_, _, _, _), RdFields(_, _, _, _, _, _, _), RdField(_, _, _, _, _), RdPayload(_, _, _, _, _),
          RdVar(_, _, _, _, _, _, _, _), RdSubs(_, _, _, _, _, _), Chunks(_, _, _, _)

Chunks(b, p, n, s) == IF n = 0 THEN <<>> ELSE <<Bytes(b, p, s)>> \o Chunks(b, p+s, n-1, s)

RdVar(b, q, pe, bend, k, isStr, open, acc) ==      \* k items still to read; open: the node does not end with the items
   IF k = 0 THEN (IF open \/ q = pe THEN Res("A", q, "", acc) ELSE Res("E", q, "slack-after-items", NoVal))
   ELSE IF ~Fits(4, q, pe, bend) THEN Fail(4, q, pe, bend, "item-length-word-missing")
   ELSE LET l == V(b, q) IN
        IF ~Fits(l, q+4, IF "item_budget_is_buffer" \in Wrong THEN bend ELSE pe, bend) THEN Fail(l, q+4, pe, bend, "item-overruns")
        ELSE IF isStr /\ l = 0 THEN Res("E", q, "string-item-of-zero-bytes", NoVal)
        ELSE IF isStr /\ b[q+4+l] # 0 THEN Res("E", q, "string-item-without-nul", NoVal)
        ELSE LET s == Bytes(b, q+4, IF isStr THEN l-1 ELSE l) IN
             IF isStr /\ HasNul(s) THEN Res("E", q, "string-item-with-embedded-nul", NoVal)
             ELSE RdVar(b, q+4+l, pe, bend, k-1, isStr, open, Append(acc, s))

RdSubs(b, q, pe, bend, acc, cl) ==
   IF q = pe THEN WithCl(Res("A", q, "", acc), cl)
   ELSE IF ~Fits(4, q, pe, bend) THEN WithCl(Fail(4, q, pe, bend, "submessage-length-word-missing"), cl)
   ELSE LET l == V(b, q) IN
        IF ~Fits(l, q+4, pe, bend) THEN WithCl(Fail(l, q+4, pe, bend, "submessage-overruns"), cl)
        ELSE LET r == RdMsg(b, q+4, q+4+l, bend) IN
             IF r.v # "A" THEN WithCl(r, cl)
             ELSE IF r.p # q+4+l THEN Res("E", r.p, "slack-in-submessage", NoVal)
             ELSE RdSubs(b, q+4+l, pe, bend, Append(acc, r.val), Weaker(cl, r.cl))

RdPayload(b, d, pe, bend, tc) ==
   LET P == pe - d  s == FixSize(tc) IN
   IF NonFlat(tc) /\ "accept_nonflat" \notin Wrong THEN Res("E", d, "non-flattenable-type-on-the-wire", NoVal)
   ELSE IF s > 0 THEN
        IF P = 0 THEN Res("E", d, "zero-items", NoVal)
        ELSE IF P % s # 0 THEN Res("E", d, "data-length-not-a-multiple-of-the-item-size", NoVal)
        ELSE IF tc = TC.bool /\ \E j \in d+1..pe : b[j] > 1 THEN Res("E", d, "bool-byte-not-0-or-1", NoVal)
        ELSE Res("A", pe, "", Chunks(b, d, P \div s, s))
   ELSE IF tc = TC.message THEN
        IF P = 0 THEN Res("E", d, "zero-items", NoVal) ELSE RdSubs(b, d, pe, bend, <<>>, "")
   ELSE IF P < 4 THEN Fail(4, d, pe, bend, "count-word-missing")
   ELSE LET c == V(b, d) IN
        IF c = 0 THEN Res("E", d, "zero-items", NoVal) ELSE RdVar(b, d+4, pe, bend, c, tc = TC.string, FALSE, <<>>)

RdField(b, p, lim, bend, acc) ==
   IF ~Fits(4, p, lim, bend) THEN Fail(4, p, lim, bend, "name-length-word-missing")
   ELSE LET L == V(b, p) IN
   IF L = 0 THEN Res("R", p, "name-length-zero", NoVal)
   ELSE IF ~Fits(L, p+4, lim, bend) THEN Fail(L, p+4, lim, bend, "name-overruns")
   ELSE IF ~HasNul(Bytes(b, p+4, L)) /\ "no_nul_check" \notin Wrong THEN Res("R", p, "name-without-nul", NoVal)
   ELSE LET name == Bytes(b, p+4, L-1)  q == p+4+L IN
   \* a NUL before the last of the L bytes: String::Unflatten takes the prefix, MMUnflattenMessage wants the NUL at the end
   IF HasNul(name) \/ b[p+4+L] # 0 THEN Res("E", p, "name-with-nul-before-its-end", NoVal)
   ELSE IF \E g \in 1..Len(acc) : acc[g].name = name THEN Res("E", p, "duplicate-field-name", NoVal)
   ELSE IF ~Fits(8, q, lim, bend) THEN Fail(8, q, lim, bend, "type-or-data-length-word-missing")
   ELSE LET tc == V(b, q)  P == V(b, q+4)  d == q+8
            \* Message::Unflatten clamps the data length to what is left of the enclosing node (DataUnflattenerReadLimiter),
            \* MMUnflattenMessage refuses it: follow the clamping reading and remember what the other one says
            cl == IF P > lim - d THEN Miss(P, d, lim, bend) ELSE ""
            pe == IF cl = "" THEN d + P ELSE lim
            r == RdPayload(b, d, pe, bend, tc) IN
        IF r.v # "A" THEN WithCl(r, cl)
        ELSE WithCl([Res("A", pe, "", [name |-> name, tc |-> Bytes(b, q, 4), items |-> r.val]) EXCEPT !.cl = r.cl], cl)

RdFields(b, p, lim, bend, k, acc, cl) ==
   IF k = 0 \/ ("ignore_field_count" \in Wrong /\ p = lim) THEN WithCl(Res("A", p, "", acc), cl)
   ELSE LET f == RdField(b, p, lim, bend, acc) IN
        IF f.v # "A" THEN WithCl(f, cl) ELSE RdFields(b, f.p, lim, bend, k-1, Append(acc, f.val), Weaker(cl, f.cl))

RdMsg(b, p, lim, bend) ==
   IF ~Fits(12, p, lim, bend) THEN Fail(12, p, lim, bend, "header-incomplete")
   ELSE IF V(b, p) # PM00 /\ "no_version_check" \notin Wrong THEN Res("R", p, "protocol-version", NoVal)
   ELSE LET r == RdFields(b, p+12, lim, bend, V(b, p+8), <<>>, "") IN
        IF r.v # "A" THEN r ELSE [Res("A", r.p, "", [what |-> Bytes(b, p+4, 4), fields |-> r.val]) EXCEPT !.cl = r.cl]

RdTop(b) == LET r == RdMsg(b, 0, Len(b), Len(b)) IN
            IF r.v = "A" /\ r.cl # "" THEN Res("E", r.p, "data-length-clamped-to-the-enclosing-node", NoVal)
            ELSE IF r.v = "A" /\ r.p # Len(b) THEN Res("E", r.p, "trailing-bytes", NoVal) ELSE r

(* payload-only reader, guided by the template t (an abstract value) *)
RECURSIVE RdT(_, _, _, _, _), RdTFields(_, _, _, _, _, _, _), RdTSubs(_, _, _, _, _, _, _)
RdTSubs(ts, i, b, q, lim, bend, acc) ==
   IF i > Len(ts) THEN Res("A", q, "", acc)
   ELSE IF ~Fits(4, q, lim, bend) THEN Fail(4, q, lim, bend, "submessage-length-word-missing")
   ELSE LET l == V(b, q) IN
        IF ~Fits(l, q+4, lim, bend) THEN Fail(l, q+4, lim, bend, "submessage-overruns")
        ELSE LET r == RdT(ts[i], b, q+4, q+4+l, bend) IN
             IF r.v # "A" THEN r
             ELSE IF r.p # q+4+l THEN Res("E", r.p, "slack-in-submessage", NoVal)
             ELSE RdTSubs(ts, i+1, b, q+4+l, lim, bend, Append(acc, r.val))
RdTFields(fs, i, b, p, lim, bend, acc) ==
   IF i > Len(fs) THEN Res("A", p, "", acc)
   ELSE LET f == fs[i]  tc == TCv(f)  s == FixSize(tc)  n == Len(f.items) IN
        LET r == IF s > 0 THEN
                    IF ~Fits(n*s, p, lim, bend) THEN Fail(n*s, p, lim, bend, "fixed-size-items-missing")
                    ELSE IF tc = TC.bool /\ \E j \in p+1..p+n*s : b[j] > 1 THEN Res("E", p, "bool-byte-not-0-or-1", NoVal)
                    ELSE Res("A", p+n*s, "", Chunks(b, p, n, s))
                 ELSE IF ~Fits(4, p, lim, bend) THEN Fail(4, p, lim, bend, "count-word-missing")
                 ELSE IF V(b, p) # n THEN Res("R", p, "count-differs-from-the-template", NoVal)
                 ELSE IF tc = TC.message THEN RdTSubs(f.items, 1, b, p+4, lim, bend, <<>>)
                 ELSE RdVar(b, p+4, lim, bend, n, tc = TC.string, TRUE, <<>>)
        IN IF r.v # "A" THEN r
           ELSE RdTFields(fs, i+1, b, r.p, lim, bend, Append(acc, [name |-> f.name, tc |-> f.tc, items |-> r.val]))
RdT(t, b, p, lim, bend) ==
   IF ~Fits(4, p, lim, bend) THEN Fail(4, p, lim, bend, "what-word-missing")
   ELSE LET r == RdTFields(t.fields, 1, b, p+4, lim, bend, <<>>) IN
        IF r.v # "A" THEN r ELSE Res("A", r.p, "", [what |-> Bytes(b, p, 4), fields |-> r.val])
RdTTop(t, b) == LET r == RdT(t, b, 0, Len(b), Len(b)) IN
                IF r.v = "A" /\ r.p # Len(b) THEN Res("E", r.p, "trailing-bytes", NoVal) ELSE r

(* one frame of the byte stream of MessageIOGateway, no maximum message size *)
RdFrame(b) ==
   IF Len(b) < 8 THEN Res("I", 0, "frame-header-incomplete", NoVal)
   ELSE LET L == V(b, 0)  e == V(b, 4) IN
   IF e < ENC0 \/ e > ENC0 + (IF "enc_range_off_by_one" \in Wrong THEN 10 ELSE 9) THEN Res("R", 4, "encoding-id", NoVal)
   ELSE IF b[4] = 255 /\ b[3] = 255 /\ b[2] = 255 /\ b[1] >= 248 THEN Res("R", 0, "header-plus-body-overflows-32-bits", NoVal)
   ELSE IF L > Len(b) - 8 THEN Res("I", 0, "frame-body-incomplete", NoVal)
   ELSE IF e # ENC0 THEN Res("E", 4, "body-is-not-a-zlib-stream", NoVal)
   ELSE LET r == RdTop(Bytes(b, 8, L)) IN
        IF r.v = "A" /\ Len(b) > 8 + L THEN Res("E", 8+L, "bytes-after-the-frame", NoVal) ELSE r

(* one packet of PacketTunnelIOGateway arriving at a fresh receiver: does it hand over the chunk? *)
RdFrag(b, base) ==
   IF b = base THEN Res("A", Len(b), "", NoVal)
   ELSE IF Len(b) < 24 THEN Res("R", 0, "fragment-header-incomplete", NoVal)
   ELSE IF V(b, 0) # TMAGIC THEN Res("R", 0, "magic", NoVal)
   ELSE IF V(b, 16) > Len(b) - 24 THEN Res("R", 16, "chunk-overruns", NoVal)
   ELSE Res("E", 0, "", NoVal)
RdMini(b, base) ==
   IF b = base THEN Res("A", Len(b), "", NoVal)
   ELSE IF Len(b) < 12 THEN Res("R", 0, "packet-header-incomplete", NoVal)
   ELSE IF V(b, 0) # MMAGIC THEN Res("R", 0, "magic", NoVal)
   ELSE IF Len(b) >= 16 /\ b[12] = 0 /\ V(b, 12) > Len(b) - 16 THEN Res("R", 12, "chunk-overruns", NoVal)     \* (level byte 0: the chunks are not deflated) the first chunk is not all there: nothing to hand over
   ELSE Res("E", 0, "", NoVal)

----------------------------------------------------------------------------------------------------------------
(* the menu of valid encodings *)

B1(x) == <<x>>
I8(x)  == <<x>>
I16(x) == <<x % 256, x \div 256>>
I32(x) == W(x)
I64(x) == W(x) \o <<0, 0, 0, 0>>
F32(x) == <<0, 0, 128 + 64*(x % 2), 63 + (x \div 2)>>                 \* 1.0, 1.5-ish bit patterns; any bytes do
Items(t, n) == CASE t = "bool"   -> [i \in 1..n |-> B1(i % 2)]
                 [] t = "int8"   -> [i \in 1..n |-> I8(i)]
                 [] t = "int16"  -> [i \in 1..n |-> I16(300*i)]
                 [] t = "int32"  -> [i \in 1..n |-> I32(70000*i)]
                 [] t = "int64"  -> [i \in 1..n |-> I64(5*i)]
                 [] t = "float"  -> [i \in 1..n |-> F32(i)]
                 [] t = "double" -> [i \in 1..n |-> <<0, 0, 0, 0>> \o F32(i)]
                 [] t = "point"  -> [i \in 1..n |-> F32(i) \o F32(i+1)]
                 [] t = "rect"   -> [i \in 1..n |-> F32(i) \o F32(i+1) \o F32(i+2) \o F32(i+3)]
FixedTypes == <<"bool", "int8", "int16", "int32", "int64", "float", "double", "point", "rect">>
Nm(c) == <<96 + c>>                          \* one-letter field names "a", "b", ...
Str1 == <<104, 105>>                         \* "hi"
Str2 == <<119, 111, 114, 108, 100>>          \* "world"
E0 == Msg(0, <<>>)
S1 == Msg(7, <<Fld(Nm(19), "int8", Items("int8", 1))>>)
S2 == Msg(8, <<Fld(Nm(20), "string", <<Str1>>), Fld(Nm(9), "int32", Items("int32", 2))>>)
N2 == Msg(9, <<Fld(<<115, 117, 98>>, "message", <<S1>>)>>)          \* nesting 1
N3 == Msg(10, <<Fld(<<109>>, "message", <<N2, E0>>), Fld(Nm(2), "bool", Items("bool", 2))>>)   \* nesting 2

FixedMenu(counts) == [j \in 1..(Len(FixedTypes) * Len(counts)) |->
                        LET t == FixedTypes[((j-1) \div Len(counts)) + 1]  n == counts[((j-1) % Len(counts)) + 1] IN
                        Msg(j, <<Fld(Nm(1), t, Items(t, n))>>)]
VarMenu == <<
   Msg(1, <<Fld(Nm(1), "string", <<<<>>>>)>>),
   Msg(2, <<Fld(Nm(1), "string", <<Str1>>)>>),
   Msg(3, <<Fld(Nm(1), "string", <<Str1, <<>>>>)>>),
   Msg(4, <<Fld(Nm(1), "string", <<<<>>, Str2, <<122>>>>)>>),
   Msg(5, <<Fld(Nm(1), "raw", <<<<>>>>)>>),
   Msg(6, <<Fld(Nm(1), "raw", <<<<1, 2, 3>>>>)>>),
   Msg(7, <<Fld(Nm(1), "raw", <<<<>>, <<9>>>>)>>),
   Msg(8, <<Fld(Nm(1), "raw", <<<<1>>, <<2, 2>>, <<3, 3, 3>>>>)>>),
   Msg(9, <<Fld(Nm(1), "blob", <<<<5, 6>>>>)>>),
   Msg(10, <<Fld(Nm(1), "blob", <<<<5>>, <<>>>>)>>) >>
MsgMenu == <<
   E0,
   Msg(11, <<Fld(Nm(1), "message", <<E0>>)>>),
   Msg(12, <<Fld(Nm(1), "message", <<S1>>)>>),
   Msg(13, <<Fld(Nm(1), "message", <<S2, E0>>)>>),
   Msg(14, <<Fld(Nm(1), "message", <<E0, S1, S2>>)>>),
   N2, N3 >>
MixMenu == <<
   S2,
   Msg(21, <<Fld(Nm(1), "bool", Items("bool", 1)), Fld(Nm(2), "message", <<S1>>), Fld(Nm(3), "raw", <<<<7, 7>>>>)>>),
   Msg(22, <<Fld(Nm(1), "string", <<Str1>>), Fld(<<>>, "string", <<Str2, Str1>>), Fld(Nm(3), "int64", Items("int64", 1))>>),
   Msg(23, <<Fld(Nm(1), "point", Items("point", 1)), Fld(Nm(2), "message", <<N2>>), Fld(Nm(3), "int16", Items("int16", 3))>>),
   Msg(HUGE, <<Fld(<<102, 105, 101, 108, 100, 32, 110, 97, 109, 101>>, "double", Items("double", 2)), Fld(Nm(2), "rect", Items("rect", 1))>>) >>
(* encodings that the grammar reads as "Either": a field without items (counts 0..3 of the quantifier) *)
ZeroMenu == <<
   [what |-> W(31), fields |-> <<[name |-> Nm(1), tc |-> W(TC.int32), items |-> <<>>]>>],
   [what |-> W(32), fields |-> <<[name |-> Nm(1), tc |-> W(TC.string), items |-> <<>>]>>],
   [what |-> W(33), fields |-> <<[name |-> Nm(1), tc |-> W(TC.message), items |-> <<>>]>>] >>

Big(n) == Rep(65, n)
AllTypes == FixedTypes \o <<"string", "raw", "blob", "message">>
ItemsOf(t, n) == CASE t = "string"  -> SubSeq(<<Str1, <<>>, Str2>>, 1, n)
                   [] t = "raw"     -> SubSeq(<<<<1, 2>>, <<>>, <<3>>>>, 1, n)
                   [] t = "blob"    -> SubSeq(<<<<>>, <<4, 5, 6>>, <<7>>>>, 1, n)
                   [] t = "message" -> SubSeq(<<S1, E0, S2>>, 1, n)
                   [] OTHER         -> Items(t, n)
(* thorough: every ordered pair of field types in one Message; every type one and two levels down *)
PairMenu == [j \in 1..(Len(AllTypes) * Len(AllTypes)) |->
               LET t1 == AllTypes[((j-1) \div Len(AllTypes)) + 1]  t2 == AllTypes[((j-1) % Len(AllTypes)) + 1] IN
               Msg(100+j, <<Fld(Nm(1), t1, ItemsOf(t1, 2)), Fld(Nm(2), t2, ItemsOf(t2, 1 + (j % 3)))>>)]
NestMenu == [j \in 1..(2 * Len(AllTypes)) |->
               LET t == AllTypes[((j-1) % Len(AllTypes)) + 1]  in1 == Msg(j, <<Fld(Nm(3), t, ItemsOf(t, 2))>>) IN
               IF j <= Len(AllTypes) THEN Msg(300+j, <<Fld(Nm(1), "message", <<in1>>), Fld(Nm(2), "int8", Items("int8", 1))>>)
               ELSE Msg(300+j, <<Fld(Nm(1), "message", <<Msg(9, <<Fld(Nm(2), "message", <<in1, E0>>)>>)>>)>>)]
BigMenu == <<
   Msg(41, <<Fld(Nm(1), "raw", <<Big(2100)>>)>>),
   Msg(42, <<Fld(Nm(1), "string", <<Big(2030)>>), Fld(Nm(2), "message", <<S2>>)>>),
   Msg(43, <<Fld(Nm(1), "message", <<Msg(1, <<Fld(Nm(1), "raw", <<Big(2040)>>)>>), S1>>)>>) >>

Menu == CASE MENU = "one"      -> <<S1>>
          [] MENU = "tiny"     -> <<E0, S2, N2, ZeroMenu[2]>>
          [] MENU = "quick"    -> FixedMenu(<<1, 2, 3>>) \o VarMenu \o MsgMenu \o MixMenu \o ZeroMenu \o <<BigMenu[3]>>
          [] MENU = "thorough" -> FixedMenu(<<1, 2, 3>>) \o VarMenu \o MsgMenu \o MixMenu \o ZeroMenu \o PairMenu \o NestMenu \o BigMenu
Canonical(m) == \A i \in 1..Len(m.fields) : m.fields[i].items # <<>>      \* only ZeroMenu is not
NBase == Len(Menu)
Mine == {i \in 1..NBase : i >= LO /\ i <= HI}

(* tunnel packets: chunk = a framed small Message; one fragment, two fragments of two Messages, the first half of a Message *)
TunBases == LET c1 == EncFrame(EncMsg(S1))  c2 == EncFrame(EncMsg(S2)) IN
   << [b |-> EncFrag(0, 0, c1, Len(c1)), map |-> MapFrag(0, 0, 0, c1, Len(c1), 24+Len(c1)), dl |-> 1],
      [b |-> EncFrag(0, 0, c1, Len(c1)) \o EncFrag(1, 0, c2, Len(c2)),
       map |-> MapFrag(0, 0, 0, c1, Len(c1), 48+Len(c1)+Len(c2)) \o MapFrag(24+Len(c1), 1, 0, c2, Len(c2), 48+Len(c1)+Len(c2)), dl |-> 2],
      [b |-> EncFrag(0, 0, SubSeq(c2, 1, 20), Len(c2)), map |-> MapFrag(0, 0, 0, SubSeq(c2, 1, 20), Len(c2), 44), dl |-> 0],
      [b |-> EncFrag(0, 0, <<>>, 0), map |-> MapFrag(0, 0, 0, <<>>, 0, 24), dl |-> 0] >>
MiniBases == LET c1 == EncFrame(EncMsg(S1))  c2 == EncFrame(EncMsg(S2)) IN
   << [b |-> EncMini(<<c1>>), map |-> MapMini(<<c1>>, 16+Len(c1)), dl |-> 1],
      [b |-> EncMini(<<c1, c2>>), map |-> MapMini(<<c1, c2>>, 20+Len(c1)+Len(c2)), dl |-> 2],
      [b |-> EncMini(<<<<>>>>), map |-> MapMini(<<<<>>>>, 16), dl |-> 0] >>

Encs == {"msg", "tmpl", "frame", "tun", "mtun"}
BaseOf(enc, i) ==     \* [b: bytes, map: word table, t: abstract value or NoVal]
   CASE enc = "msg"   -> LET b == EncMsg(Menu[i]) IN [b |-> b, map |-> MapMsg(Menu[i], 0, Len(b), 0), t |-> Menu[i]]
     [] enc = "tmpl"  -> LET b == EncT(Menu[i]) IN [b |-> b, map |-> MapT(Menu[i], 0, Len(b), 0), t |-> Menu[i]]
     [] enc = "frame" -> LET b == EncFrame(EncMsg(Menu[i])) IN [b |-> b, map |-> MapFrame(EncMsg(Menu[i])), t |-> Menu[i]]
     [] enc = "tun"   -> [b |-> TunBases[i].b, map |-> TunBases[i].map, t |-> NoVal]
     [] enc = "mtun"  -> [b |-> MiniBases[i].b, map |-> MiniBases[i].map, t |-> NoVal]
BaseIdx(enc) == CASE enc = "tun" -> {i \in 1..Len(TunBases) : LO = 1} [] enc = "mtun" -> {i \in 1..Len(MiniBases) : LO = 1}
                  [] enc = "tmpl" -> {i \in Mine : Canonical(Menu[i])} [] OTHER -> Mine

Judge(enc, i, b) ==
   CASE enc = "msg"   -> RdTop(b)
     [] enc = "tmpl"  -> RdTTop(Menu[i], b)
     [] enc = "frame" -> RdFrame(b)
     [] enc = "tun"   -> RdFrag(b, TunBases[i].b)
     [] enc = "mtun"  -> RdMini(b, MiniBases[i].b)
ReEnc(enc, val) == CASE enc = "msg" -> EncMsg(val) [] enc = "tmpl" -> EncT(val) [] enc = "frame" -> EncFrame(EncMsg(val)) [] OTHER -> <<>>

----------------------------------------------------------------------------------------------------------------
(* the mutation operators *)

LenKinds == {"namelen", "paylen", "itemlen", "msglen", "framelen", "chunklen", "totallen"}
Nat31(S) == {x \in S : x >= 0 /\ x < HUGE}
Near(n) == Nat31({n - 1, n}) \cup (IF n < HUGE - 1 THEN {n + 1} ELSE {})
Vals(wd) ==
   {W(x) : x \in {0, 1} \cup Near(wd.n)}
   \cup {<<255, 255, 255, 127>>, <<0, 0, 0, 128>>} \cup {<<248 + i, 255, 255, 255>> : i \in 0..7}
   \cup (IF wd.k \in LenKinds \cup {"count", "nfields", "fragoff"} THEN {W(x) : x \in Near(wd.e)} ELSE {})
   \* sizes that do not overflow 32-bit arithmetic when multiplied by a small item size, but are far beyond the buffer
   \cup (IF wd.k \in LenKinds \cup {"count", "nfields"} THEN {W(65535), W(16777216), W(268435455), W(268435456), W(536870911), W(1073741823)} ELSE {})
   \cup (IF wd.k = "type" THEN {W(TC[t]) : t \in DOMAIN TC} ELSE {})
   \cup (IF wd.k = "enc" THEN {W(ENC0 + x) : x \in 0..10} ELSE {})
   \cup (IF wd.k = "levelid" THEN {<<7, 0, 0, 6>>} ELSE {})

Stride(n) == IF n <= 400 THEN 1 ELSE 64
TruncPoints(base) ==      \* every truncation; for the 2 KB bases every 64th offset plus 3 bytes around every word
   LET n == Len(base.b) IN
   IF n <= 400 THEN 0..n-1
   ELSE {t \in 0..n-1 : t % 64 = 0 \/ t >= n - 16} \cup {t \in 0..n-1 : \E j \in 1..Len(base.map) : t >= base.map[j].off - 1 /\ t <= base.map[j].off + 5}

Splices == {"ins", "del", "pad"}
   \* ins: the content of the node grows by one byte and its own length word says so - its ancestors' lengths do not
   \* del: the content loses its last byte, no length word changes          pad: a byte is inserted after the content, no length word changes
SpliceOK(wd, s) == wd.ce >= 0 /\ (s = "del" => wd.n >= 1) /\ wd.n < HUGE - 1
DoSplice(b, wd, s) ==
   CASE s = "ins" -> Put(SubSeq(b, 1, wd.ce) \o <<0>> \o SubSeq(b, wd.ce + 1, Len(b)), wd.off, W(wd.n + 1))
     [] s = "del" -> SubSeq(b, 1, wd.ce - 1) \o SubSeq(b, wd.ce + 1, Len(b))
     [] s = "pad" -> SubSeq(b, 1, wd.ce) \o <<0>> \o SubSeq(b, wd.ce + 1, Len(b))

Mk(enc, i, k, pos, wd, w, sp, b, baseb) ==
   LET j == Judge(enc, i, b)
       canon == enc \in {"tun", "mtun"} \/ Canonical(Menu[i]) IN
   [enc |-> enc, base |-> i, k |-> k, pos |-> pos, wk |-> wd.k, w |-> w, n |-> wd.n, e |-> wd.e, d |-> wd.d, sp |-> sp, b |-> b,
    v |-> j.v, why |-> j.why, canon |-> canon,
    rt |-> (j.v = "A" /\ enc \in {"msg", "tmpl", "frame"}) => ReEnc(enc, j.val) = b,          \* the derivation re-encodes to the same bytes
    same |-> (k = "base" /\ j.v = "A" /\ enc \in {"msg", "tmpl", "frame"}) => j.val = BaseOf(enc, i).t,      \* a valid encoding decodes to the value it was made from
    unch |-> b = baseb,
    dl |-> IF j.v \in {"R", "RB", "I"} THEN 0 ELSE IF j.v = "E" THEN -1
           ELSE CASE enc = "tun" -> TunBases[i].dl [] enc = "mtun" -> MiniBases[i].dl [] OTHER -> 1,      \* Messages handed over by a gateway
    full |-> IF j.v = "A" /\ enc = "tmpl" THEN EncMsg(j.val) ELSE <<>>,      \* the Message a templated "A" mutant stands for
    nf |-> IF j.v = "A" /\ enc \in {"msg", "frame", "tmpl"} THEN Len(j.val.fields) ELSE -1]
NoWd == [k |-> "-", off |-> -1, n |-> -1, e |-> -1, ce |-> -1, d |-> 0, z |-> FALSE]
Out(m) == [enc |-> m.enc, base |-> m.base, k |-> m.k, pos |-> m.pos, wk |-> m.wk, w |-> m.w, sp |-> m.sp, v |-> m.v, why |-> m.why,
           d |-> m.d, nf |-> m.nf, dl |-> m.dl, full |-> m.full, b |-> m.b]
Emit(m) == EMIT => PrintT("@@" \o ToJson(Out(m)))

Init == \E enc \in Encs : \E i \in BaseIdx(enc) :
           /\ mu = Mk(enc, i, "base", -1, NoWd, <<>>, "-", BaseOf(enc, i).b, BaseOf(enc, i).b)
           /\ Emit(mu)

Trunc == /\ mu.k = "base"
         /\ \E t \in TruncPoints(BaseOf(mu.enc, mu.base)) :
               mu' = Mk(mu.enc, mu.base, "trunc", t, NoWd, <<>>, "-", SubSeq(mu.b, 1, t), mu.b)
         /\ Emit(mu')
Word ==  /\ mu.k = "base"
         /\ LET map == BaseOf(mu.enc, mu.base).map IN
            \E j \in 1..Len(map) : \E w \in Vals(map[j]) :
               mu' = Mk(mu.enc, mu.base, "word", map[j].off, map[j], w, "-", Put(mu.b, IF "put_off_by_one" \in Wrong /\ map[j].off > 0 THEN map[j].off - 1 ELSE map[j].off, w), mu.b)
         /\ Emit(mu')
Splice == /\ mu.k = "base"
          /\ LET map == BaseOf(mu.enc, mu.base).map IN
             \E j \in 1..Len(map) : \E s \in Splices :
                /\ SpliceOK(map[j], s)
                /\ mu' = Mk(mu.enc, mu.base, "splice", map[j].off, map[j], <<>>, s, DoSplice(mu.b, map[j], s), mu.b)
          /\ Emit(mu')
(* the terminator of a flattened String (field name, string item) replaced by a letter: the only structural byte that is not part of a word *)
Term ==   /\ mu.k = "base"
          /\ LET map == BaseOf(mu.enc, mu.base).map IN
             \E j \in 1..Len(map) :
                /\ map[j].z
                /\ mu' = Mk(mu.enc, mu.base, "term", map[j].off, map[j], <<>>, "-", SubSeq(mu.b, 1, map[j].ce - 1) \o <<65>> \o SubSeq(mu.b, map[j].ce + 1, Len(mu.b)), mu.b)
          /\ Emit(mu')
Next == Trunc \/ Word \/ Splice \/ Term
Spec == Init /\ [][Next]_mu

----------------------------------------------------------------------------------------------------------------
(* what TLC checks on every base and every mutant *)

IsMsgLike == mu.enc \in {"msg", "tmpl", "frame"}
Unchanged == mu.unch

TypeOK == /\ mu.v \in {"A", "E", "R", "RB", "I"}
          /\ \A j \in 1..Len(mu.b) : mu.b[j] \in 0..255
          /\ mu.v = "I" => mu.enc = "frame"
          /\ mu.v = "RB" => mu.enc \in {"msg", "tmpl", "frame"}

(* the grammar and the reader agree on every valid encoding: it is derivable, and decodes to the value it was made from *)
BaseDerivable == (mu.k = "base" /\ mu.canon) => (mu.v = "A" /\ mu.rt /\ mu.same)
BaseZeroIsEither == (mu.k = "base" /\ ~mu.canon) => mu.v = "E"

(* the word table describes the encoding: every entry's word is where the table says, with the value it says *)
MapConsistent == mu.k = "base" =>
   LET map == BaseOf(mu.enc, mu.base).map IN
   /\ \A j \in 1..Len(map) : /\ map[j].off + 4 <= Len(mu.b)
                              /\ Bytes(mu.b, map[j].off, 4) = W(map[j].n)
                              /\ map[j].e >= 0
                              /\ map[j].ce >= 0 => (map[j].ce <= Len(mu.b) /\ map[j].ce - (map[j].off + 4) - map[j].n \in {0, 4})   \* 4: a word sits between the length and its content (frame, fragment)
   /\ \A j, g \in 1..Len(map) : j < g => map[j].off + 4 <= map[g].off

(* every MustAccept mutant is derivable: its derivation re-encodes to exactly its bytes, and it is the base value iff the bytes are the base's *)
AcceptDerivable == mu.v = "A" => (mu.rt /\ mu.same)

(* a mutation really mutates: bytes equal to the base iff the word got its own value back *)
MutationApplied == (mu.k = "word" => (Unchanged <=> mu.w = W(mu.n))) /\ (mu.k \in {"trunc", "splice", "term"} => ~Unchanged)
UnchangedAccepted == (Unchanged /\ mu.canon) => mu.v = "A"

(* every truncation of a valid encoding cuts inside a length-prefixed node (the outermost node is closed by the field count): it is
   never derivable, and the bytes the words declare are not in the buffer - except that a reader which clamps a field's data length
   to what is left (Message::Unflatten does) can still take a cut that falls inside the data of a fixed-size or Message field *)
ClampWhy == {"zero-items", "data-length-not-a-multiple-of-the-item-size", "data-length-clamped-to-the-enclosing-node"}
TruncationRejected == (mu.k = "trunc" /\ mu.canon) =>
   /\ mu.v # "A"
   /\ CASE mu.enc = "msg"   -> mu.v = "R" \/ (mu.v = "E" /\ mu.why \in ClampWhy)
        [] mu.enc = "tmpl"  -> mu.v = "R"
        [] mu.enc = "frame" -> mu.v = "I"
        [] mu.enc = "tun"   -> mu.v = "R" \/ (mu.v = "E" /\ mu.pos >= 24)      \* a whole fragment may precede the cut
        [] mu.enc = "mtun"  -> mu.v = "R" \/ (mu.v = "E" /\ mu.pos >= 12)
(* a cut inside a word, a name, a string / raw item or a count is MustReject whatever the reader clamps *)
TruncationInsideVariablePartRejected == (mu.k = "trunc" /\ mu.canon /\ mu.enc = "msg") =>
   LET map == BaseOf("msg", mu.base).map IN
   (\E j \in 1..Len(map) : /\ mu.pos > map[j].off /\ mu.pos < map[j].off + 4) => mu.v = "R"

(* a length or count that asks for more than its node holds is never accepted; beyond the buffer it is MustReject *)
OverrunRejected == (mu.k = "word" /\ IsMsgLike /\ mu.canon /\ mu.wk \in {"namelen", "itemlen", "msglen", "count", "nfields"}) =>
   LET v == V(mu.w, 0) IN
   /\ (mu.wk \in {"namelen", "itemlen", "msglen"} /\ v > mu.e) => mu.v \in {"R", "RB"}
   /\ (mu.wk \in {"namelen", "itemlen", "msglen"} /\ v > Len(mu.b) - (mu.pos + 4) /\ mu.enc # "frame") => mu.v = "R"
   /\ (mu.wk \in {"count", "nfields"} /\ v > mu.n) => mu.v \in {"R", "RB"}
DataLengthNeverAccepted == (mu.k = "word" /\ IsMsgLike /\ mu.canon /\ mu.wk = "paylen" /\ V(mu.w, 0) # mu.n) => mu.v # "A"
HugeNeverAccepted == (mu.k = "word" /\ IsMsgLike /\ mu.wk \in LenKinds \cup {"count", "nfields"} /\ V(mu.w, 0) >= 65535) => mu.v # "A"

(* a nested length that disagrees with its parent is never accepted; if only the child grew, a reader with a budget rejects *)
SpliceDisagrees == (mu.k = "splice" /\ IsMsgLike /\ mu.canon) =>
   /\ mu.v = "A" => (mu.sp = "ins" /\ mu.d = 0 /\ (mu.wk = "paylen" \/ mu.enc = "tmpl"))     \* a node whose only parent is the buffer (the data of a top-level field; a top-level item of the payload-only encoding): growing it consistently is a valid encoding
   /\ (mu.sp = "ins" /\ mu.wk \in {"itemlen", "msglen"} /\ mu.enc = "msg" /\ mu.e = mu.n) => mu.v \in {"R", "RB"}    \* the last child now ends one byte after its parent

(* a flattened String ends with a NUL: a name length that stops one byte early is refused for exactly that reason *)
NameNulChecked == (mu.k = "word" /\ mu.enc = "msg" /\ mu.canon /\ mu.wk = "namelen" /\ mu.n >= 2 /\ mu.w = W(mu.n - 1)) => (mu.v = "R" /\ mu.why = "name-without-nul")

(* ... and a name whose terminator is gone is MustReject; a string item without one is never derivable *)
TerminatorChecked == (mu.k = "term" /\ mu.canon /\ mu.enc \in {"msg", "tmpl"}) =>
   /\ mu.v # "A"
   /\ mu.wk = "namelen" => (mu.v = "R" /\ mu.why = "name-without-nul")
   /\ mu.wk = "itemlen" => (mu.v = "E" /\ mu.why = "string-item-without-nul")

(* documented constants *)
VersionChecked == (mu.k = "word" /\ mu.wk = "ver" /\ ~Unchanged) => mu.v = "R"
EncodingChecked == (mu.k = "word" /\ mu.wk = "enc") => (mu.v = "R" <=> (V(mu.w, 0) < ENC0 \/ V(mu.w, 0) > ENC0 + 9))
NonFlatNeverAccepted == (mu.k = "word" /\ mu.wk = "type" /\ NonFlat(V(mu.w, 0))) => mu.v # "A"

=============================================================================
