SPECIFICATION Spec
CONSTANTS
  MENU = "tiny"
  LO = 1
  HI = 1000
  EMIT = FALSE
  Wrong = {}
INVARIANTS TypeOK BaseDerivable BaseZeroIsEither MapConsistent AcceptDerivable MutationApplied UnchangedAccepted TruncationRejected TruncationInsideVariablePartRejected OverrunRejected DataLengthNeverAccepted HugeNeverAccepted SpliceDisagrees NameNulChecked TerminatorChecked VersionChecked EncodingChecked NonFlatNeverAccepted
