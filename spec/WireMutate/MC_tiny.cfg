SPECIFICATION Spec
CONSTANTS
  MENU = "tiny"
  SHARD = 0
  NSHARDS = 1
  EMIT = FALSE
  Wrong = {}
INVARIANTS TypeOK BaseDerivable BaseZeroIsEither MapConsistent AcceptDerivable MutationApplied UnchangedAccepted TruncationRejected TruncationInsideVariablePartRejected OverrunRejected DataLengthNeverAccepted HugeNeverAccepted SpliceDisagrees NameNulChecked VersionChecked EncodingChecked NonFlatNeverAccepted
