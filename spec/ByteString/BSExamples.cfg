INIT Init
NEXT Next
CONSTANTS
  Deviations = {}
  Bug = "none"
