------------------------------ MODULE BSMachine ------------------------------
(***************************************************************************)
(* C17, spec -> code: a String s (and a second one, t, as operand source)   *)
(* driven through every operation of ByteString.tla with operands around    *)
(* the small-buffer capacity (15 bytes + NUL).  One action = one public     *)
(* call on the real muscle::String.  `last` is the flat record of the step  *)
(* (operation, operand descriptors, expected result, expected contents)     *)
(* that harness/st.cpp replays; with RECORD = "hist" the records of the     *)
(* whole behaviour are accumulated and printed (simulation mode).           *)
(*                                                                          *)
(*   GEN = "all"    every operand of the (small) menus: TLC dumps the graph *)
(*                  and tools/pathcover.py covers every transition          *)
(*   GEN = "random" one random operand per argument (TLC -simulate)         *)
(*                                                                          *)
(* The property is at the bottom: TypeOK and the algebraic laws of the      *)
(* oracle, checked in every reachable state (s, t).                         *)
(***************************************************************************)
EXTENDS ByteString, Json

CONSTANTS RECORD,      \* "none" | "last" | "hist"
          GEN,         \* "all" | "random"
          MaxSteps,    \* calls per behaviour (the Setup step included)
          MaxLen,      \* no call is generated whose result is longer than this
          Lens,        \* operand lengths
          Pats,        \* operand patterns (see PatBytes)
          IdxBase,     \* index arguments (next to the ones derived from the current length)
          Cnts,        \* count arguments (-1 = no limit is added where it is the default)
          Ops          \* the operations generated

VARIABLES s, t, n, last, hist
vars == <<s, t, n, last, hist>>

\* ---- operand menus ----------------------------------------------------------------------------------
PatBytes(p) == CASE p = 1 -> <<97, 98>>                                    \* abab..
                 [] p = 2 -> <<32, 97, 66, 195, 32, 49, 37>>               \* " aB\xC3 1%": blanks at the ends, mixed case, non-ASCII
                 [] p = 3 -> <<97, 97, 97, 98>>                            \* aaab..: partial matches
                 [] p = 4 -> <<37, 49, 32, 37, 50, 37, 49, 49, 32>>        \* "%1 %2%11 ": Arg tokens
                 [] p = 5 -> <<65, 45, 49, 50>>                            \* "A-12": numeric suffixes
                 [] p = 6 -> <<9, 98, 65, 50, 195, 97, 32>>                \* "\tbA2\xC3a "
Gen(p, k) == [q \in 1..k |-> PatBytes(p)[((q - 1) % Len(PatBytes(p))) + 1]]
Small == GEN = "all"            \* the dumped instance: the primary operand over the whole menu, few values for the secondary ones
Needles == IF Small THEN {<<97>>, <<32>>, <<37, 49>>} ELSE {<<97>>, <<97, 98>>, <<97, 97, 98>>, <<32>>, <<37, 49>>, <<66>>, <<49, 50>>, <<65, 66>>}
Menu == {Gen(p, k) : p \in Pats, k \in Lens} \cup Needles
\* pieces of the current contents: searches and replacements that hit
Pieces(str) == LET L == Len(str) IN
               {Sub(str, b, e) : <<b, e>> \in IF Small THEN {<<Min(1, L), Min(3, L)>>, <<Max(L - 1, 0), L>>}
                                                ELSE {<<0, Min(1, L)>>, <<Min(1, L), Min(3, L)>>, <<Max(L - 2, 0), L>>, <<Max(L - 1, 0), L>>, <<Min(14, L), Min(17, L)>>}}

Pick(S) == IF GEN = "random" THEN (IF S = {} THEN {} ELSE {RandomElement(S)}) ELSE S

VSL == {"v", "self", "tail"}      \* const char * arguments: a separate buffer, Cstr(), Cstr()+k
VST == {"v", "self", "t"}         \* const String & arguments: a separate String, the String itself, the second String
V   == {"v"}
NOA == {"-"}

XSig(op) ==
    CASE op \in {"SetCstr", "AppendChars", "PrependChars", "NewCstr", "WithAppendCstr", "WithPrependCstr", "AssignCstr", "AppendCstr", "ShlCstr",
                 "MinusCstr", "SubstringAfterCstr", "ArgCstr", "PlusCstr", "CstrPlus", "LastIndexOfCstr", "StartsWithCstr", "EndsWithCstr",
                 "StartsWithICCstr", "EndsWithICCstr", "EqCstr", "NeCstr", "LtCstr", "GtCstr", "LeCstr", "GeCstr", "CompareToCstr", "CompareToICCstr",
                 "EqualsICCstr", "NumCmpCstr", "NumCmpICCstr", "InsertChars", "WithInsertCstr", "SubstringUntilCstr", "IndexOfCstr",
                 "LastIndexOfCstrFrom", "IndexOfICCstr", "LastIndexOfICCstr", "ContainsCstr", "ContainsICCstr", "NumInstancesCstr",
                 "WithAppendedWordCstr", "WithInsertedWordCstr"} -> VSL
      [] op \in {"AssignStr", "AppendStr", "ShlStr", "MinusStr", "SubstringAfterStr", "ArgStr", "PlusStr", "MinusOpStr", "LastIndexOfStr",
                 "StartsWithStr", "EndsWithStr", "StartsWithICStr", "EndsWithICStr", "EqStr", "NeStr", "LtStr", "GtStr", "LeStr", "GeStr",
                 "CompareToStr", "CompareToICStr", "EqualsICStr", "NumCmpStr", "NumCmpICStr", "WithSuffixStr", "WithPrefixStr", "SetFromString",
                 "NewSub", "WithInsertStr", "WithAppendStr", "WithPrependStr", "WithoutSuffixStr", "WithoutPrefixStr", "WithoutSuffixICStr",
                 "WithoutPrefixICStr", "SubstringUntilStr", "IndexOfStr", "LastIndexOfStrFrom", "IndexOfICStr", "LastIndexOfICStr", "ContainsStr",
                 "ContainsICStr", "NumInstancesStr", "ReplaceStr", "WithReplacementsStr", "WithAppendedWordStr", "WithPrependedWordStr",
                 "WithInsertedWordStr"} -> VST
      [] op \in {"UnflattenInPlace", "UnflattenTry", "TSet"} -> V
      [] OTHER -> NOA
YSig(op) == CASE op \in {"ReplaceStr", "WithReplacementsStr"} -> VST
              [] op \in {"WithAppendedWordStr", "WithAppendedWordCstr", "WithPrependedWordStr", "WithInsertedWordStr", "WithInsertedWordCstr"} -> V
              [] OTHER -> NOA
UsesI(op) == op \in {"SetFromString", "NewSub", "InsertChars", "WithInsertCstr", "WithInsertStr", "SubstringUntilCstr", "IndexOfCstr", "LastIndexOfCstrFrom",
                     "IndexOfICCstr", "LastIndexOfICCstr", "ContainsCstr", "ContainsICCstr", "NumInstancesCstr", "SubstringUntilStr", "IndexOfStr",
                     "LastIndexOfStrFrom", "IndexOfICStr", "LastIndexOfICStr", "ContainsStr", "ContainsICStr", "NumInstancesStr", "IndexOfChar",
                     "LastIndexOfChar", "IndexOfICChar", "LastIndexOfICChar", "ContainsChar", "ContainsICChar", "NumInstancesChar", "SetCharAt",
                     "WithInsertChar", "ReplaceChar", "WithReplacementsChar", "ReplaceStr", "WithReplacementsStr", "ShlInt", "TruncateChars",
                     "TruncateToLength", "Prealloc", "ShrinkToFit", "CopyPrealloc", "Substring1", "Substring2", "ArgInt", "ParseNumericSuffix", "CharAt",
                     "WithInsertedWordStr", "WithInsertedWordCstr", "PaddedBy"}
UsesJ(op) == op \in {"SetFromString", "NewSub", "Substring2"}
UsesM(op) == op \in {"SetCstr", "AppendChars", "PrependChars", "NewCstr", "WithAppendCstr", "WithPrependCstr", "InsertChars", "WithInsertCstr", "WithInsertStr",
                     "WithAppendStr", "WithPrependStr", "WithoutSuffixStr", "WithoutPrefixStr", "WithoutSuffixICStr", "WithoutPrefixICStr", "WithAppendChar",
                     "WithPrependChar", "WithoutSuffixChar", "WithoutPrefixChar", "WithoutSuffixICChar", "WithoutPrefixICChar", "WithInsertChar",
                     "ReplaceChar", "WithReplacementsChar", "ReplaceStr", "WithReplacementsStr", "ReplaceTable", "WithReplacementsTable"}
UsesC(op) == op \in {"AppendChar", "MinusChar", "WithSuffixChar", "WithPrefixChar", "PlusChar", "CharPlus", "StartsWithChar", "EndsWithChar", "StartsWithICChar",
                     "EndsWithICChar", "EqChar", "EqualsICChar", "IndexOfChar", "LastIndexOfChar", "IndexOfICChar", "LastIndexOfICChar", "ContainsChar",
                     "ContainsICChar", "NumInstancesChar", "SetCharAt", "WithAppendChar", "WithPrependChar", "WithoutSuffixChar", "WithoutPrefixChar",
                     "WithoutSuffixICChar", "WithoutPrefixICChar", "WithInsertChar", "ReplaceChar", "WithReplacementsChar", "PaddedBy"}
UsesD(op) == op \in {"ReplaceChar", "WithReplacementsChar"}
UsesF(op) == op \in {"ShlBool", "StartsWithNumber", "PaddedBy"}
UsesTab(op) == op \in {"ReplaceTable", "WithReplacementsTable"}

Idx(str) == IdxBase \cup (IF Small THEN {Len(str)} ELSE {Max(Len(str) - 1, 0), Len(str), Len(str) + 1})
IMenu(op, str) ==
    CASE ~UsesI(op) -> {0}
      [] op \in {"SetCharAt", "CharAt"} -> Idx(str) \cap 0..(Len(str) - 1)                  \* "be sure to only use valid indices"
      [] op \in {"ShlInt", "ArgInt"} -> IF Small THEN {7, -5, 1000000} ELSE {0, 7, 12, -5, 1000000}
      [] Small /\ op \in {"ReplaceChar", "WithReplacementsChar", "ReplaceStr", "WithReplacementsStr"} -> {0, 1}
      [] op \in {"Prealloc", "CopyPrealloc"} -> {0, 15, 16, 40}
      [] op = "ShrinkToFit" -> {0, 1, 20}
      [] op = "ParseNumericSuffix" -> {0, 7}
      [] op = "PaddedBy" -> {0, 15, 16, 17, 20}
      [] op \in {"TruncateChars", "TruncateToLength", "InsertChars", "WithInsertCstr", "WithInsertStr", "WithInsertChar", "WithInsertedWordStr", "WithInsertedWordCstr",
                 "LastIndexOfICChar", "LastIndexOfChar", "IndexOfChar"} -> Idx(str) \cup {-1}
      [] OTHER -> Idx(str)
JMenu(op, str) == IF ~UsesJ(op) THEN {0} ELSE IF Small THEN {1, 16, Len(str), -1} ELSE Idx(str) \cup {-1}
MMenu(op) == IF ~UsesM(op) THEN {-1} ELSE IF op \in {"WithAppendChar", "WithPrependChar", "WithInsertChar"} THEN Cnts ELSE Cnts \cup {-1}
Chars == IF Small THEN {97, 32, 195} ELSE {97, 65, 32, 49, 37, 195}
CMenu(op) == IF UsesC(op) THEN Chars ELSE {97}
DMenu(op) == IF ~UsesD(op) THEN {98} ELSE IF Small THEN {97, 66} ELSE {97, 66, 195}
FMenu(op) == IF UsesF(op) THEN {0, 1} ELSE {0}
AsMenu(op) == IF op \in StrOps \ {"Flatten", "UnflattenTry"} THEN (IF Small THEN {0, 1} ELSE {0, 1, 2}) ELSE {0}
XMenu(op, str, xa) == IF xa # "v" THEN {<<>>}
                      ELSE IF op \in {"UnflattenInPlace", "UnflattenTry"}
                           THEN {<<0>>, <<97, 0>>, <<97, 98, 0, 99>>, Gen(1, 15) \o <<0>>, Gen(2, 16) \o <<0>>, Gen(1, 31) \o <<0, 98>>, <<>>, <<97>>, Gen(1, 15), Gen(2, 16), Gen(1, 17)}
                           ELSE Menu \cup Pieces(str)
YMenu(op, str, ya) == IF ya # "v" THEN {<<>>}
                      ELSE IF op \in {"ReplaceStr", "WithReplacementsStr"} THEN (IF Small THEN {<<>>, <<66>>, Gen(2, 16)} ELSE Menu)
                      ELSE IF Small THEN {<<32>>, <<>>} ELSE {<<32>>, <<>>, <<32, 32>>, <<97>>}                                   \* word separators
KMenu(str, xa) == IF xa # "tail" THEN {0} ELSE IF Small THEN {Min(1, Len(str))} ELSE {0, 1, 15, 16, Len(str)} \cap 0..Len(str)
\* tables: [k |-> keys, v |-> values] in iteration order
Tabs(str) == {[k |-> <<<<97>>, <<98>>>>, v |-> <<<<98>>, <<97>>>>],                                  \* a <-> b, simultaneously
              [k |-> <<<<97, 98>>>>, v |-> <<Gen(1, 16)>>],                                          \* grow across the boundary
              [k |-> <<<<97, 97, 98>>>>, v |-> <<<<66>>>>],                                          \* aab -> B (a partial match that fails and restarts: F30)
              [k |-> <<<<37, 49>>, <<32>>>>, v |-> <<<<>>, <<>>>>],                                  \* delete
              [k |-> <<<<97, 98>>, <<97, 98, 97>>>>, v |-> <<<<49>>, <<50>>>>],                      \* a key that is a prefix of a later key
              [k |-> <<<<97, 98, 97>>, <<97, 98>>>>, v |-> <<<<50>>, <<49>>>>],
              [k |-> <<Sub(str, 0, Min(2, Len(str))) \o <<66>>, <<66>>>>, v |-> <<<<97>>, str>>]}    \* a value as long as the subject
TabMenu(op, str) == IF UsesTab(op) THEN Tabs(str) ELSE {[k |-> <<>>, v |-> <<>>]}

\* ---- the record of a step ------------------------------------------------------------------------------
Rec(op, a, r, ns, nt) ==
    [op |-> op, x |-> a.x, xa |-> a.xa, xk |-> a.xk, y |-> a.y, ya |-> a.ya, yk |-> a.yk, i |-> a.i, j |-> a.j, m |-> a.m, c |-> a.c, d |-> a.d,
     f |-> a.f, as |-> a.as, tk |-> a.tk, tv |-> a.tv,
     es |-> ns, et |-> nt, ei |-> r.i, estr |-> r.str, ds |-> B2I(r.ds), di |-> B2I(r.di), dstr |-> B2I(r.dstr),
     fid |-> IF r.fid \in Deviations THEN r.fid ELSE "", ai |-> r.ai, astr |-> r.astr]      \* only listed deviations are tolerated

A0 == [x |-> <<>>, xa |-> "-", xk |-> 0, y |-> <<>>, ya |-> "-", yk |-> 0, i |-> 0, j |-> 0, m |-> -1, c |-> 97, d |-> 98, f |-> 0, as |-> 0, tk |-> <<>>, tv |-> <<>>]

Init == s = <<>> /\ t = <<>> /\ n = 0 /\ last = [op |-> "Init"] /\ hist = <<>>

Emit(rec) == /\ last' = IF RECORD = "none" THEN last ELSE rec
             /\ hist' = IF RECORD = "hist" THEN Append(hist, rec) ELSE hist

\* the first step builds the String in a chosen storage mode: pre = 0: plain SetCstr (inline up to 15 bytes);
\* pre > 0: Prealloc(pre) first (heap whatever the length)
Setup == /\ n = 0
         /\ \E x \in Pick({Gen(p, k) : p \in Pats, k \in Lens}), pre \in Pick({0, 40}) :
                LET nt == IF pre = 0 THEN <<97, 98>> ELSE Gen(2, 17)
                    a  == [A0 EXCEPT !.x = x, !.xa = "v", !.i = pre, !.y = nt, !.ya = "v"]
                IN /\ s' = x /\ t' = nt /\ n' = 1
                   /\ Emit(Rec("Setup", a, Res(x), x, nt))

Do(op) ==
    /\ n >= 1 /\ n < MaxSteps
    /\ \E xa \in Pick(XSig(op)), ya \in Pick(YSig(op)) :
       \E xv \in Pick(XMenu(op, s, xa)), yv \in Pick(YMenu(op, s, ya)), xk \in Pick(KMenu(s, xa)), yk \in Pick(KMenu(s, ya)) :
       \E i \in Pick(IMenu(op, s)), j \in Pick(JMenu(op, s)), m \in Pick(MMenu(op)), c \in Pick(CMenu(op)), d \in Pick(DMenu(op)),
          f \in Pick(FMenu(op)), tb \in Pick(TabMenu(op, s)), as \in Pick(AsMenu(op)) :
          LET a  == [x |-> xv, xa |-> xa, xk |-> xk, y |-> yv, ya |-> ya, yk |-> yk, i |-> i, j |-> j, m |-> m, c |-> c, d |-> d, f |-> f,
                     as |-> as, tk |-> tb.k, tv |-> tb.v]
              r  == Apply(op, s, t, a)
              ns == IF as > 0 THEN r.str ELSE r.s
              nt == TAfter(op, s, t, a)
              \* only calls whose effect on the contents the documentation determines are generated as mutations
              \* (and where a tolerated deviation applies, only if both readings leave the same contents)
              ok == /\ r.ds /\ (r.fid \notin Deviations \/ r.as = r.s)
                    /\ (as > 0) => (r.dstr /\ r.fid \notin Deviations)
                    /\ (op = "UnflattenInPlace") => HasNul(xv)
                    \* F33: with fromIndex >= 2^31 and the letter absent the code reads Cstr()[-1] (the sanitizer would end the replay)
                    /\ (op = "LastIndexOfICChar" /\ i < 0 /\ IsAlpha(c) /\ "F33" \in Deviations) => IndexFrom(LowerS(s), <<Lower(c)>>, 0) >= 0
                    /\ Len(ns) <= MaxLen /\ Len(r.str) <= MaxLen + 1
          IN IF ok THEN /\ s' = ns /\ t' = nt /\ n' = n + 1
                        /\ Emit(Rec(op, a, r, ns, nt))
             ELSE \* simulation: the randomly chosen call is not one to generate; the behaviour goes on with a harmless one
                  /\ GEN = "random" /\ s' = s /\ t' = t /\ n' = n + 1
                  /\ Emit(Rec("Length", A0, Apply("Length", s, t, A0), s, t))

\* simulation: the behaviour is complete, print it
Done == /\ RECORD = "hist" /\ n = MaxSteps
        /\ PrintT("@@" \o ToJson(hist))
        /\ n' = MaxSteps + 1 /\ UNCHANGED <<s, t, last, hist>>

\* simulation: one random operation per step (TLC -simulate would otherwise evaluate every operation at every step)
Candidates(k) == IF GEN = "random" THEN {RandomElement(Ops)} ELSE Ops      \* (the parameter keeps TLC from evaluating it once and for all)
Step == n >= 1 /\ \E op \in Candidates(n) : Do(op)
Next == Setup \/ Step \/ Done
Spec == Init /\ [][Next]_vars

-----------------------------------------------------------------------------
(* The property: the ideal string never holds a NUL, and the oracle obeys the laws of strings *)
TypeOK == NoZero(s) /\ NoZero(t) /\ n \in 0..(MaxSteps + 1)

AX(x) == [A0 EXCEPT !.x = x, !.xa = "v"]
\* flattening is the bytes plus one NUL and parses back to an equal String; input without a NUL is rejected
LawRoundTrip == /\ Len(Flat(s)) = Len(s) + 1 /\ Flat(s)[Len(s) + 1] = 0
                /\ LET r == Apply("UnflattenTry", t, <<>>, AX(Flat(s))) IN r.str = s /\ r.i = 0 /\ r.dstr
                /\ LET r == Apply("UnflattenTry", t, <<>>, AX(s)) IN r.i = 1
                /\ Apply("UnflattenInPlace", t, <<>>, AX(Flat(s) \o t)).s = s
\* every split of a String puts it back together; substrings have the asked-for length
LawSplit == \A i \in 0..(Len(s) + 1) : /\ Substr(s, 0, i) \o Substr(s, i, -1) = s
                                        /\ Len(Substr(s, i, -1)) = Max(Len(s) - i, 0)
                                        /\ \A j \in {i, i + 1, Len(s), -1} : Len(Substr(s, i, j)) = Max(Cap(j, Len(s)) - i, 0)
\* searching: the index found is an occurrence, the first / last one, and Contains agrees
LawSearch == t # <<>> =>
             LET f == IndexFrom(s, t, 0)  l == LastIndexFrom(s, t, 0) IN
             /\ (f >= 0) = (\E i \in 0..Len(s) : OccAt(s, t, i))
             /\ f >= 0 => (OccAt(s, t, f) /\ OccAt(s, t, l) /\ f <= l /\ \A i \in 0..Len(s) : OccAt(s, t, i) => (f <= i /\ i <= l))
             /\ (f < 0) = (l < 0)
             /\ LastIndexDown(s, t, Len(s) - 1) = l                     \* the coded reading of F29 agrees where "from" is the last index
             /\ NaiveOcc(s, t, 0, 0) \subseteq AllOcc(s, t, 0)          \* the coded matcher of F30 only misses, never invents
\* replacing t by itself changes nothing, deleting it shortens by the number replaced; the one-pair table is the plain replace
LawReplace == (t # <<>> /\ NoOverlap(s, t, 0)) =>
              /\ Repl(s, t, t, -1, 0).out = s
              /\ Len(Repl(s, t, <<>>, -1, 0).out) = Len(s) - Repl(s, t, <<>>, -1, 0).n * Len(t)
              /\ Repl(s, t, <<>>, -1, 0).n = Cardinality(AllOcc(s, t, 0))
              /\ IndexFrom(Repl(s, t, <<1>>, -1, 0).out, t, 0) = -1
              /\ Repl(s, t, <<1>>, 1, 0).n <= 1 /\ Repl(s, t, <<1>>, 0, 0).out = s
              /\ ReplTable(s, <<t>>, <<<<1, 2>>>>, -1, FALSE) = Repl(s, t, <<1, 2>>, -1, 0)
LawCase == /\ LowerS(LowerS(s)) = LowerS(s) /\ UpperS(LowerS(s)) = UpperS(s) /\ Len(LowerS(s)) = Len(s)
           /\ \A k \in 1..Len(s) : (s[k] >= 128 \/ ~IsAlpha(s[k])) => (LowerS(s)[k] = s[k] /\ UpperS(s)[k] = s[k])
           /\ MixedRel(s, MixedCoded(s)) /\ CaseCmp(s, UpperS(s)) = 0
LawTrim == LET r == Trim(s) IN
           /\ Trim(r) = r /\ (r # <<>> => (~IsWs(r[1]) /\ ~IsWs(r[Len(r)])))
           /\ \E b \in 0..(Len(s) - Len(r)) : Sub(s, b, b + Len(r)) = r /\ \A k \in 1..b : IsWs(s[k])
LawReverse == Rev(Rev(s)) = s /\ Len(Rev(s)) = Len(s) /\ \A k \in 1..Len(s) : Rev(s)[k] = s[Len(s) + 1 - k]
LawCompare == /\ StrCmp(s, t) = 0 - StrCmp(t, s) /\ (StrCmp(s, t) = 0) = (s = t)
              /\ CaseCmp(s, t) = 0 - CaseCmp(t, s) /\ NatCmp(s, t) = 0 - NatCmp(t, s) /\ NatCmp(s, s) = 0
              /\ (s # <<>> /\ t # <<>> /\ s[1] < t[1]) => StrCmp(s, t) = -1            \* bytes compare as unsigned
              /\ (s # <<>> /\ t # <<>> /\ s[1] > t[1]) => StrCmp(s, t) = 1
              /\ StrCmp(s, s \o t) <= 0
              /\ (\A k \in 1..Len(s) : ~IsDigit(s[k])) /\ (\A k \in 1..Len(t) : ~IsDigit(t[k])) => NatCmp(s, t) = StrCmp(s, t)
LawInsert == /\ Ins(s, 0, t) = t \o s /\ Ins(s, -1, t) = s \o t /\ Ins(s, Len(s) + 5, t) = s \o t
             /\ \A i \in 0..Len(s) : Len(Ins(s, i, t)) = Len(s) + Len(t) /\ Sub(Ins(s, i, t), i, i + Len(t)) = t
LawArg == /\ TokenStarts(s) = {} => ArgSubst(s, t) = s
          /\ (ArgDet(s) /\ TokenStarts(s) # {}) =>
                 LET tok == <<37>> \o Dec(ArgLowest(s)) IN
                 Len(ArgSubst(s, t)) = Len(s) + Cardinality(AllOcc(s, tok, 0)) * (Len(t) - Len(tok))
LawNumber == /\ \A k \in {0, 7, 10, 99, 100, 54321, 999999999} : Val(Dec(k)) = k /\ NumSuffix(s \o <<45>> \o Dec(k)) = Dec(k)
             /\ Sub(s, 0, Len(s) - Len(NumSuffix(s))) \o NumSuffix(s) = s
Laws == LawRoundTrip /\ LawSplit /\ LawSearch /\ LawReplace /\ LawCase /\ LawTrim /\ LawReverse /\ LawCompare /\ LawInsert /\ LawArg /\ LawNumber
=============================================================================
