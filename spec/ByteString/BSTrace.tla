------------------------------- MODULE BSTrace -------------------------------
(***************************************************************************)
(* C17, code -> spec: calls recorded from the real muscle::String by        *)
(* harness/st.cpp (seeded random sequences with operands around the         *)
(* small-buffer boundary, incl. operands that alias the String itself) are  *)
(* validated line by line against ByteString.tla.  Validation is linear:    *)
(* one state per line.  A line is                                           *)
(*   {"op": name, arguments (x, xa, xk, y, ya, i, j, m, c, d, f, as, tk,    *)
(*    tv - only the ones the call uses), observed: "ri" (returned number),  *)
(*    "rstr" (returned String, bytes), "rs" / "rt" (contents of the two     *)
(*    Strings after the call, only if they changed), "len" (Length()),      *)
(*    "z" (the byte at Cstr()[Length()], if not 0), "sl" (strlen(Cstr()),   *)
(*    if not Length()), "rbad" (the returned String is malformed)}          *)
(* {"op":"Reset"} starts a new execution with two empty Strings.            *)
(* Bytes are small integers; numbers are kept below 2^31.                   *)
(***************************************************************************)
EXTENDS ByteString, Json, IOUtils

VARIABLES s, t, l
TraceLog == ndJsonDeserialize(IOEnv.TRACE)
N == Len(TraceLog)

Fld(r, k, dflt) == IF k \in DOMAIN r THEN r[k] ELSE dflt
Norm(ln) == [x |-> Fld(ln, "x", <<>>), xa |-> Fld(ln, "xa", "-"), xk |-> Fld(ln, "xk", 0),
             y |-> Fld(ln, "y", <<>>), ya |-> Fld(ln, "ya", "-"), yk |-> Fld(ln, "yk", 0),
             i |-> Fld(ln, "i", 0), j |-> Fld(ln, "j", 0), m |-> Fld(ln, "m", -1), c |-> Fld(ln, "c", 97), d |-> Fld(ln, "d", 98),
             f |-> Fld(ln, "f", 0), as |-> Fld(ln, "as", 0), tk |-> Fld(ln, "tk", <<>>), tv |-> Fld(ln, "tv", <<>>)]

\* registers: 1 = line being explained, 2 / 3 = the two Strings before it, 4 / 5 = lines accepted only under the tolerated deviation F29 / F30
TraceInit == s = <<>> /\ t = <<>> /\ l = 1 /\ TLCSet(1, 1) /\ TLCSet(2, <<>>) /\ TLCSet(3, <<>>) /\ TLCSet(4, 0) /\ TLCSet(5, 0)

\* what the documentation allows for the call of line ln made in state (s, t)
Verdict(ln, cs, ct) ==
    LET a    == Norm(ln)
        r    == Apply(ln.op, cs, ct, a)
        os   == Fld(ln, "rs", cs)            \* observed contents afterwards
        ot   == Fld(ln, "rt", ct)
        ostr == Fld(ln, "rstr", <<>>)
        oi   == Fld(ln, "ri", 0)
        isStr == ln.op \in StrOps
        dev  == r.fid # "" /\ r.fid \in Deviations
        strDoc == IF ~isStr THEN TRUE
                  ELSE IF ln.op = "ToMixedCase" THEN MixedRel(cs, ostr)
                  ELSE ~r.dstr \/ ostr = r.str
        intDoc == ~r.di \/ oi = r.i
        es   == IF a.as > 0 THEN ostr ELSE r.s                              \* s = s.Op(..): the String becomes the returned value
        sDoc == (a.as = 0 /\ ~r.ds) \/ os = es
        doc  == strDoc /\ intDoc /\ sDoc
        \* the coded reading of a tolerated deviation, as a whole
        cod  == /\ dev /\ (~isStr \/ ostr = r.astr) /\ oi = r.ai
                /\ os = (IF a.as > 0 THEN ostr ELSE r.as)
        wf   == /\ Fld(ln, "z", 0) = 0 /\ Fld(ln, "sl", ln.len) = ln.len /\ ln.len = Len(os) /\ NoZero(os) /\ NoZero(ot)
                /\ Fld(ln, "rbad", 0) = 0
                /\ (isStr /\ ln.op # "Flatten") => NoZero(ostr)
    IN [ok |-> wf /\ ot = TAfter(ln.op, cs, ct, a) /\ (doc \/ cod), dev |-> IF ~doc /\ cod THEN r.fid ELSE "", os |-> os, ot |-> ot,
        exp |-> [s |-> r.s, i |-> r.i, str |-> r.str, ds |-> r.ds, di |-> r.di, dstr |-> r.dstr, fid |-> r.fid, wf |-> wf]]

Call == /\ l <= N /\ TraceLog[l].op # "Reset"
        /\ LET v == Verdict(TraceLog[l], s, t) IN
           /\ v.ok
           /\ (v.dev = "F29") => TLCSet(4, TLCGet(4) + 1)
           /\ (v.dev = "F30") => TLCSet(5, TLCGet(5) + 1)
           /\ s' = v.os /\ t' = v.ot
        /\ l' = l + 1
Reset == /\ l <= N /\ TraceLog[l].op = "Reset"
         /\ s' = <<>> /\ t' = <<>> /\ l' = l + 1

TraceNext == Call \/ Reset
TraceSpec == TraceInit /\ [][TraceNext]_<<s, t, l>>

\* progress registers (one worker: the states are visited in the order of the lines)
Track == TLCSet(1, l) /\ TLCSet(2, s) /\ TLCSet(3, t)
\* accepted iff the line register ran past the end; otherwise say what was expected for the first unexplained line
Report == /\ PrintT(<<"maxline", TLCGet(1), "of", N, "F29", TLCGet(4), "F30", TLCGet(5)>>)
          /\ TLCGet(1) <= N =>
               PrintT("@@" \o ToJson([line |-> TLCGet(1), observed |-> TraceLog[TLCGet(1)], before_s |-> TLCGet(2), before_t |-> TLCGet(3),
                                      expected |-> Verdict(TraceLog[TLCGet(1)], TLCGet(2), TLCGet(3)).exp]))
=============================================================================
