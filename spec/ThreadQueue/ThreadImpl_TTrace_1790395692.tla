---- MODULE ThreadImpl_TTrace_1790395692 ----
EXTENDS ThreadImpl, Sequences, TLCExt, Toolbox, Naturals, TLC

_expression ==
    LET ThreadImpl_TEExpression == INSTANCE ThreadImpl_TEExpression
    IN ThreadImpl_TEExpression!expression
----

_trace ==
    LET ThreadImpl_TETrace == INSTANCE ThreadImpl_TETrace
    IN ThreadImpl_TETrace!trace
----

_prop ==
    ~<>[](
        xsent = (1)
        /\
        last = ([t |-> "O", a |-> "OJoin", x |-> 0])
        /\
        nsent = (2)
        /\
        lt = ([S |-> [pc |-> "idle", d |-> "int", m |-> 51, wm |-> "none", inner |-> FALSE, then |-> "idle", res |-> -1], O |-> [pc |-> "idle", d |-> "int", m |-> 0, wm |-> "none", inner |-> FALSE, then |-> "Join", res |-> -1], I |-> [pc |-> "off", d |-> "int", m |-> 0, wm |-> "block", inner |-> FALSE, then |-> "loop", res |-> -1]])
        /\
        running = (FALSE)
        /\
        sig = ([own |-> 0, int |-> 0])
        /\
        q = ([own |-> <<111, 112>>, int |-> <<51>>])
        /\
        sentH = ([own |-> <<111, 112>>, int |-> <<11, 12, 0, 51>>])
        /\
        round = (1)
        /\
        npolls = (2)
        /\
        handled = (<<11, 12>>)
        /\
        recvH = ([own |-> <<>>, int |-> <<11, 12, 0>>])
        /\
        ended = (TRUE)
        /\
        alloc = (FALSE)
        /\
        eof = (FALSE)
    )
----

_init ==
    /\ lt = _TETrace[1].lt
    /\ sentH = _TETrace[1].sentH
    /\ handled = _TETrace[1].handled
    /\ alloc = _TETrace[1].alloc
    /\ npolls = _TETrace[1].npolls
    /\ running = _TETrace[1].running
    /\ q = _TETrace[1].q
    /\ sig = _TETrace[1].sig
    /\ recvH = _TETrace[1].recvH
    /\ xsent = _TETrace[1].xsent
    /\ last = _TETrace[1].last
    /\ eof = _TETrace[1].eof
    /\ nsent = _TETrace[1].nsent
    /\ round = _TETrace[1].round
    /\ ended = _TETrace[1].ended
----

_next ==
    /\ \E i,j \in DOMAIN _TETrace:
        /\ \/ /\ j = i + 1
              /\ i = TLCGet("level")
        /\ lt  = _TETrace[i].lt
        /\ lt' = _TETrace[j].lt
        /\ sentH  = _TETrace[i].sentH
        /\ sentH' = _TETrace[j].sentH
        /\ handled  = _TETrace[i].handled
        /\ handled' = _TETrace[j].handled
        /\ alloc  = _TETrace[i].alloc
        /\ alloc' = _TETrace[j].alloc
        /\ npolls  = _TETrace[i].npolls
        /\ npolls' = _TETrace[j].npolls
        /\ running  = _TETrace[i].running
        /\ running' = _TETrace[j].running
        /\ q  = _TETrace[i].q
        /\ q' = _TETrace[j].q
        /\ sig  = _TETrace[i].sig
        /\ sig' = _TETrace[j].sig
        /\ recvH  = _TETrace[i].recvH
        /\ recvH' = _TETrace[j].recvH
        /\ xsent  = _TETrace[i].xsent
        /\ xsent' = _TETrace[j].xsent
        /\ last  = _TETrace[i].last
        /\ last' = _TETrace[j].last
        /\ eof  = _TETrace[i].eof
        /\ eof' = _TETrace[j].eof
        /\ nsent  = _TETrace[i].nsent
        /\ nsent' = _TETrace[j].nsent
        /\ round  = _TETrace[i].round
        /\ round' = _TETrace[j].round
        /\ ended  = _TETrace[i].ended
        /\ ended' = _TETrace[j].ended

\* Uncomment the ASSUME below to write the states of the error trace
\* to the given file in Json format. Note that you can pass any tuple
\* to `JsonSerialize`. For example, a sub-sequence of _TETrace.
    \* ASSUME
    \*     LET J == INSTANCE Json
    \*         IN J!JsonSerialize("ThreadImpl_TTrace_1790395692.json", _TETrace)

=============================================================================

 Note that you can extract this module `ThreadImpl_TEExpression`
  to a dedicated file to reuse `expression` (the module in the 
  dedicated `ThreadImpl_TEExpression.tla` file takes precedence 
  over the module `ThreadImpl_TEExpression` below).

---- MODULE ThreadImpl_TEExpression ----
EXTENDS ThreadImpl, Sequences, TLCExt, Toolbox, Naturals, TLC

expression == 
    [
        \* To hide variables of the `ThreadImpl` spec from the error trace,
        \* remove the variables below.  The trace will be written in the order
        \* of the fields of this record.
        lt |-> lt
        ,sentH |-> sentH
        ,handled |-> handled
        ,alloc |-> alloc
        ,npolls |-> npolls
        ,running |-> running
        ,q |-> q
        ,sig |-> sig
        ,recvH |-> recvH
        ,xsent |-> xsent
        ,last |-> last
        ,eof |-> eof
        ,nsent |-> nsent
        ,round |-> round
        ,ended |-> ended
        
        \* Put additional constant-, state-, and action-level expressions here:
        \* ,_stateNumber |-> _TEPosition
        \* ,_ltUnchanged |-> lt = lt'
        
        \* Format the `lt` variable as Json value.
        \* ,_ltJson |->
        \*     LET J == INSTANCE Json
        \*     IN J!ToJson(lt)
        
        \* Lastly, you may build expressions over arbitrary sets of states by
        \* leveraging the _TETrace operator.  For example, this is how to
        \* count the number of times a spec variable changed up to the current
        \* state in the trace.
        \* ,_ltModCount |->
        \*     LET F[s \in DOMAIN _TETrace] ==
        \*         IF s = 1 THEN 0
        \*         ELSE IF _TETrace[s].lt # _TETrace[s-1].lt
        \*             THEN 1 + F[s-1] ELSE F[s-1]
        \*     IN F[_TEPosition - 1]
    ]

=============================================================================



Parsing and semantic processing can take forever if the trace below is long.
 In this case, it is advised to uncomment the module below to deserialize the
 trace from a generated binary file.

\*
\*---- MODULE ThreadImpl_TETrace ----
\*EXTENDS ThreadImpl, IOUtils, TLC
\*
\*trace == IODeserialize("ThreadImpl_TTrace_1790395692.bin", TRUE)
\*
\*=============================================================================
\*

---- MODULE ThreadImpl_TETrace ----
EXTENDS ThreadImpl, TLC

trace == 
    <<
    ([xsent |-> 0,last |-> [a |-> "Init"],nsent |-> 0,lt |-> [S |-> [pc |-> "idle", d |-> "int", m |-> 0, wm |-> "none", inner |-> FALSE, then |-> "idle", res |-> -1], O |-> [pc |-> "idle", d |-> "int", m |-> 0, wm |-> "none", inner |-> FALSE, then |-> "idle", res |-> -1], I |-> [pc |-> "off", d |-> "int", m |-> 0, wm |-> "none", inner |-> FALSE, then |-> "idle", res |-> -1]],running |-> FALSE,sig |-> [own |-> 0, int |-> 0],q |-> [own |-> <<>>, int |-> <<>>],sentH |-> [own |-> <<>>, int |-> <<>>],round |-> 0,npolls |-> 0,handled |-> <<>>,recvH |-> [own |-> <<>>, int |-> <<>>],ended |-> FALSE,alloc |-> FALSE,eof |-> FALSE]),
    ([xsent |-> 1,last |-> [m |-> 51, t |-> "S", a |-> "SSend"],nsent |-> 0,lt |-> [S |-> [pc |-> "Enq", d |-> "int", m |-> 51, wm |-> "none", inner |-> FALSE, then |-> "idle", res |-> -1], O |-> [pc |-> "idle", d |-> "int", m |-> 0, wm |-> "none", inner |-> FALSE, then |-> "idle", res |-> -1], I |-> [pc |-> "off", d |-> "int", m |-> 0, wm |-> "none", inner |-> FALSE, then |-> "idle", res |-> -1]],running |-> FALSE,sig |-> [own |-> 0, int |-> 0],q |-> [own |-> <<>>, int |-> <<>>],sentH |-> [own |-> <<>>, int |-> <<>>],round |-> 0,npolls |-> 0,handled |-> <<>>,recvH |-> [own |-> <<>>, int |-> <<>>],ended |-> FALSE,alloc |-> FALSE,eof |-> FALSE]),
    ([xsent |-> 1,last |-> [t |-> "O", a |-> "OPoll", x |-> 0],nsent |-> 0,lt |-> [S |-> [pc |-> "Enq", d |-> "int", m |-> 51, wm |-> "none", inner |-> FALSE, then |-> "idle", res |-> -1], O |-> [pc |-> "Deq", d |-> "own", m |-> 0, wm |-> "poll", inner |-> FALSE, then |-> "idle", res |-> -1], I |-> [pc |-> "off", d |-> "int", m |-> 0, wm |-> "none", inner |-> FALSE, then |-> "idle", res |-> -1]],running |-> FALSE,sig |-> [own |-> 0, int |-> 0],q |-> [own |-> <<>>, int |-> <<>>],sentH |-> [own |-> <<>>, int |-> <<>>],round |-> 0,npolls |-> 1,handled |-> <<>>,recvH |-> [own |-> <<>>, int |-> <<>>],ended |-> FALSE,alloc |-> FALSE,eof |-> FALSE]),
    ([xsent |-> 1,last |-> [d |-> "own", m |-> -1, t |-> "O", a |-> "Deq", ok |-> FALSE, left |-> 0],nsent |-> 0,lt |-> [S |-> [pc |-> "Enq", d |-> "int", m |-> 51, wm |-> "none", inner |-> FALSE, then |-> "idle", res |-> -1], O |-> [pc |-> "idle", d |-> "own", m |-> 0, wm |-> "poll", inner |-> FALSE, then |-> "idle", res |-> -1], I |-> [pc |-> "off", d |-> "int", m |-> 0, wm |-> "none", inner |-> FALSE, then |-> "idle", res |-> -1]],running |-> FALSE,sig |-> [own |-> 0, int |-> 0],q |-> [own |-> <<>>, int |-> <<>>],sentH |-> [own |-> <<>>, int |-> <<>>],round |-> 0,npolls |-> 1,handled |-> <<>>,recvH |-> [own |-> <<>>, int |-> <<>>],ended |-> FALSE,alloc |-> FALSE,eof |-> FALSE]),
    ([xsent |-> 1,last |-> [t |-> "O", a |-> "OPoll", x |-> 0],nsent |-> 0,lt |-> [S |-> [pc |-> "Enq", d |-> "int", m |-> 51, wm |-> "none", inner |-> FALSE, then |-> "idle", res |-> -1], O |-> [pc |-> "Deq", d |-> "own", m |-> 0, wm |-> "poll", inner |-> FALSE, then |-> "idle", res |-> -1], I |-> [pc |-> "off", d |-> "int", m |-> 0, wm |-> "none", inner |-> FALSE, then |-> "idle", res |-> -1]],running |-> FALSE,sig |-> [own |-> 0, int |-> 0],q |-> [own |-> <<>>, int |-> <<>>],sentH |-> [own |-> <<>>, int |-> <<>>],round |-> 0,npolls |-> 2,handled |-> <<>>,recvH |-> [own |-> <<>>, int |-> <<>>],ended |-> FALSE,alloc |-> FALSE,eof |-> FALSE]),
    ([xsent |-> 1,last |-> [d |-> "own", m |-> -1, t |-> "O", a |-> "Deq", ok |-> FALSE, left |-> 0],nsent |-> 0,lt |-> [S |-> [pc |-> "Enq", d |-> "int", m |-> 51, wm |-> "none", inner |-> FALSE, then |-> "idle", res |-> -1], O |-> [pc |-> "idle", d |-> "own", m |-> 0, wm |-> "poll", inner |-> FALSE, then |-> "idle", res |-> -1], I |-> [pc |-> "off", d |-> "int", m |-> 0, wm |-> "none", inner |-> FALSE, then |-> "idle", res |-> -1]],running |-> FALSE,sig |-> [own |-> 0, int |-> 0],q |-> [own |-> <<>>, int |-> <<>>],sentH |-> [own |-> <<>>, int |-> <<>>],round |-> 0,npolls |-> 2,handled |-> <<>>,recvH |-> [own |-> <<>>, int |-> <<>>],ended |-> FALSE,alloc |-> FALSE,eof |-> FALSE]),
    ([xsent |-> 1,last |-> [t |-> "O", a |-> "OStart", initial |-> FALSE],nsent |-> 0,lt |-> [S |-> [pc |-> "Enq", d |-> "int", m |-> 51, wm |-> "none", inner |-> FALSE, then |-> "idle", res |-> -1], O |-> [pc |-> "idle", d |-> "int", m |-> 0, wm |-> "none", inner |-> FALSE, then |-> "idle", res |-> -1], I |-> [pc |-> "Entry", d |-> "int", m |-> 0, wm |-> "none", inner |-> FALSE, then |-> "idle", res |-> -1]],running |-> TRUE,sig |-> [own |-> 0, int |-> 0],q |-> [own |-> <<>>, int |-> <<>>],sentH |-> [own |-> <<>>, int |-> <<>>],round |-> 1,npolls |-> 2,handled |-> <<>>,recvH |-> [own |-> <<>>, int |-> <<>>],ended |-> FALSE,alloc |-> TRUE,eof |-> FALSE]),
    ([xsent |-> 1,last |-> [t |-> "I", a |-> "Entry", signalled |-> FALSE],nsent |-> 0,lt |-> [S |-> [pc |-> "Enq", d |-> "int", m |-> 51, wm |-> "none", inner |-> FALSE, then |-> "idle", res |-> -1], O |-> [pc |-> "idle", d |-> "int", m |-> 0, wm |-> "none", inner |-> FALSE, then |-> "idle", res |-> -1], I |-> [pc |-> "Drain", d |-> "int", m |-> 0, wm |-> "block", inner |-> FALSE, then |-> "loop", res |-> -1]],running |-> TRUE,sig |-> [own |-> 0, int |-> 0],q |-> [own |-> <<>>, int |-> <<>>],sentH |-> [own |-> <<>>, int |-> <<>>],round |-> 1,npolls |-> 2,handled |-> <<>>,recvH |-> [own |-> <<>>, int |-> <<>>],ended |-> FALSE,alloc |-> TRUE,eof |-> FALSE]),
    ([xsent |-> 1,last |-> [m |-> 11, t |-> "O", a |-> "OSend"],nsent |-> 1,lt |-> [S |-> [pc |-> "Enq", d |-> "int", m |-> 51, wm |-> "none", inner |-> FALSE, then |-> "idle", res |-> -1], O |-> [pc |-> "Enq", d |-> "int", m |-> 11, wm |-> "none", inner |-> FALSE, then |-> "idle", res |-> -1], I |-> [pc |-> "Drain", d |-> "int", m |-> 0, wm |-> "block", inner |-> FALSE, then |-> "loop", res |-> -1]],running |-> TRUE,sig |-> [own |-> 0, int |-> 0],q |-> [own |-> <<>>, int |-> <<>>],sentH |-> [own |-> <<>>, int |-> <<>>],round |-> 1,npolls |-> 2,handled |-> <<>>,recvH |-> [own |-> <<>>, int |-> <<>>],ended |-> FALSE,alloc |-> TRUE,eof |-> FALSE]),
    ([xsent |-> 1,last |-> [d |-> "int", m |-> 11, t |-> "O", a |-> "Enq", first |-> TRUE, len |-> 1],nsent |-> 1,lt |-> [S |-> [pc |-> "Enq", d |-> "int", m |-> 51, wm |-> "none", inner |-> FALSE, then |-> "idle", res |-> -1], O |-> [pc |-> "Sig", d |-> "int", m |-> 11, wm |-> "none", inner |-> FALSE, then |-> "idle", res |-> -1], I |-> [pc |-> "Drain", d |-> "int", m |-> 0, wm |-> "block", inner |-> FALSE, then |-> "loop", res |-> -1]],running |-> TRUE,sig |-> [own |-> 0, int |-> 0],q |-> [own |-> <<>>, int |-> <<11>>],sentH |-> [own |-> <<>>, int |-> <<11>>],round |-> 1,npolls |-> 2,handled |-> <<>>,recvH |-> [own |-> <<>>, int |-> <<>>],ended |-> FALSE,alloc |-> TRUE,eof |-> FALSE]),
    ([xsent |-> 1,last |-> [d |-> "int", t |-> "I", a |-> "Drain"],nsent |-> 1,lt |-> [S |-> [pc |-> "Enq", d |-> "int", m |-> 51, wm |-> "none", inner |-> FALSE, then |-> "idle", res |-> -1], O |-> [pc |-> "Sig", d |-> "int", m |-> 11, wm |-> "none", inner |-> FALSE, then |-> "idle", res |-> -1], I |-> [pc |-> "Deq", d |-> "int", m |-> 0, wm |-> "block", inner |-> FALSE, then |-> "loop", res |-> -1]],running |-> TRUE,sig |-> [own |-> 0, int |-> 0],q |-> [own |-> <<>>, int |-> <<11>>],sentH |-> [own |-> <<>>, int |-> <<11>>],round |-> 1,npolls |-> 2,handled |-> <<>>,recvH |-> [own |-> <<>>, int |-> <<>>],ended |-> FALSE,alloc |-> TRUE,eof |-> FALSE]),
    ([xsent |-> 1,last |-> [d |-> "int", t |-> "O", a |-> "Sig", sent |-> TRUE],nsent |-> 1,lt |-> [S |-> [pc |-> "Enq", d |-> "int", m |-> 51, wm |-> "none", inner |-> FALSE, then |-> "idle", res |-> -1], O |-> [pc |-> "idle", d |-> "int", m |-> 11, wm |-> "none", inner |-> FALSE, then |-> "idle", res |-> -1], I |-> [pc |-> "Deq", d |-> "int", m |-> 0, wm |-> "block", inner |-> FALSE, then |-> "loop", res |-> -1]],running |-> TRUE,sig |-> [own |-> 0, int |-> 1],q |-> [own |-> <<>>, int |-> <<11>>],sentH |-> [own |-> <<>>, int |-> <<11>>],round |-> 1,npolls |-> 2,handled |-> <<>>,recvH |-> [own |-> <<>>, int |-> <<>>],ended |-> FALSE,alloc |-> TRUE,eof |-> FALSE]),
    ([xsent |-> 1,last |-> [m |-> 12, t |-> "O", a |-> "OSend"],nsent |-> 2,lt |-> [S |-> [pc |-> "Enq", d |-> "int", m |-> 51, wm |-> "none", inner |-> FALSE, then |-> "idle", res |-> -1], O |-> [pc |-> "Enq", d |-> "int", m |-> 12, wm |-> "none", inner |-> FALSE, then |-> "idle", res |-> -1], I |-> [pc |-> "Deq", d |-> "int", m |-> 0, wm |-> "block", inner |-> FALSE, then |-> "loop", res |-> -1]],running |-> TRUE,sig |-> [own |-> 0, int |-> 1],q |-> [own |-> <<>>, int |-> <<11>>],sentH |-> [own |-> <<>>, int |-> <<11>>],round |-> 1,npolls |-> 2,handled |-> <<>>,recvH |-> [own |-> <<>>, int |-> <<>>],ended |-> FALSE,alloc |-> TRUE,eof |-> FALSE]),
    ([xsent |-> 1,last |-> [d |-> "int", m |-> 12, t |-> "O", a |-> "Enq", first |-> FALSE, len |-> 2],nsent |-> 2,lt |-> [S |-> [pc |-> "Enq", d |-> "int", m |-> 51, wm |-> "none", inner |-> FALSE, then |-> "idle", res |-> -1], O |-> [pc |-> "idle", d |-> "int", m |-> 12, wm |-> "none", inner |-> FALSE, then |-> "idle", res |-> -1], I |-> [pc |-> "Deq", d |-> "int", m |-> 0, wm |-> "block", inner |-> FALSE, then |-> "loop", res |-> -1]],running |-> TRUE,sig |-> [own |-> 0, int |-> 1],q |-> [own |-> <<>>, int |-> <<11, 12>>],sentH |-> [own |-> <<>>, int |-> <<11, 12>>],round |-> 1,npolls |-> 2,handled |-> <<>>,recvH |-> [own |-> <<>>, int |-> <<>>],ended |-> FALSE,alloc |-> TRUE,eof |-> FALSE]),
    ([xsent |-> 1,last |-> [t |-> "O", a |-> "OShutdown", x |-> 0],nsent |-> 2,lt |-> [S |-> [pc |-> "Enq", d |-> "int", m |-> 51, wm |-> "none", inner |-> FALSE, then |-> "idle", res |-> -1], O |-> [pc |-> "Enq", d |-> "int", m |-> 0, wm |-> "none", inner |-> FALSE, then |-> "Join", res |-> -1], I |-> [pc |-> "Deq", d |-> "int", m |-> 0, wm |-> "block", inner |-> FALSE, then |-> "loop", res |-> -1]],running |-> TRUE,sig |-> [own |-> 0, int |-> 1],q |-> [own |-> <<>>, int |-> <<11, 12>>],sentH |-> [own |-> <<>>, int |-> <<11, 12>>],round |-> 1,npolls |-> 2,handled |-> <<>>,recvH |-> [own |-> <<>>, int |-> <<>>],ended |-> FALSE,alloc |-> TRUE,eof |-> FALSE]),
    ([xsent |-> 1,last |-> [d |-> "int", m |-> 0, t |-> "O", a |-> "Enq", first |-> FALSE, len |-> 3],nsent |-> 2,lt |-> [S |-> [pc |-> "Enq", d |-> "int", m |-> 51, wm |-> "none", inner |-> FALSE, then |-> "idle", res |-> -1], O |-> [pc |-> "Join", d |-> "int", m |-> 0, wm |-> "none", inner |-> FALSE, then |-> "Join", res |-> -1], I |-> [pc |-> "Deq", d |-> "int", m |-> 0, wm |-> "block", inner |-> FALSE, then |-> "loop", res |-> -1]],running |-> TRUE,sig |-> [own |-> 0, int |-> 1],q |-> [own |-> <<>>, int |-> <<11, 12, 0>>],sentH |-> [own |-> <<>>, int |-> <<11, 12, 0>>],round |-> 1,npolls |-> 2,handled |-> <<>>,recvH |-> [own |-> <<>>, int |-> <<>>],ended |-> FALSE,alloc |-> TRUE,eof |-> FALSE]),
    ([xsent |-> 1,last |-> [d |-> "int", m |-> 11, t |-> "I", a |-> "Deq", ok |-> TRUE, left |-> 2],nsent |-> 2,lt |-> [S |-> [pc |-> "Enq", d |-> "int", m |-> 51, wm |-> "none", inner |-> FALSE, then |-> "idle", res |-> -1], O |-> [pc |-> "Join", d |-> "int", m |-> 0, wm |-> "none", inner |-> FALSE, then |-> "Join", res |-> -1], I |-> [pc |-> "Enq", d |-> "own", m |-> 111, wm |-> "block", inner |-> FALSE, then |-> "loop", res |-> -1]],running |-> TRUE,sig |-> [own |-> 0, int |-> 1],q |-> [own |-> <<>>, int |-> <<12, 0>>],sentH |-> [own |-> <<>>, int |-> <<11, 12, 0>>],round |-> 1,npolls |-> 2,handled |-> <<11>>,recvH |-> [own |-> <<>>, int |-> <<11>>],ended |-> FALSE,alloc |-> TRUE,eof |-> FALSE]),
    ([xsent |-> 1,last |-> [d |-> "int", m |-> 51, t |-> "S", a |-> "Enq", first |-> FALSE, len |-> 3],nsent |-> 2,lt |-> [S |-> [pc |-> "idle", d |-> "int", m |-> 51, wm |-> "none", inner |-> FALSE, then |-> "idle", res |-> -1], O |-> [pc |-> "Join", d |-> "int", m |-> 0, wm |-> "none", inner |-> FALSE, then |-> "Join", res |-> -1], I |-> [pc |-> "Enq", d |-> "own", m |-> 111, wm |-> "block", inner |-> FALSE, then |-> "loop", res |-> -1]],running |-> TRUE,sig |-> [own |-> 0, int |-> 1],q |-> [own |-> <<>>, int |-> <<12, 0, 51>>],sentH |-> [own |-> <<>>, int |-> <<11, 12, 0, 51>>],round |-> 1,npolls |-> 2,handled |-> <<11>>,recvH |-> [own |-> <<>>, int |-> <<11>>],ended |-> FALSE,alloc |-> TRUE,eof |-> FALSE]),
    ([xsent |-> 1,last |-> [d |-> "own", m |-> 111, t |-> "I", a |-> "Enq", first |-> TRUE, len |-> 1],nsent |-> 2,lt |-> [S |-> [pc |-> "idle", d |-> "int", m |-> 51, wm |-> "none", inner |-> FALSE, then |-> "idle", res |-> -1], O |-> [pc |-> "Join", d |-> "int", m |-> 0, wm |-> "none", inner |-> FALSE, then |-> "Join", res |-> -1], I |-> [pc |-> "Sig", d |-> "own", m |-> 111, wm |-> "block", inner |-> FALSE, then |-> "loop", res |-> -1]],running |-> TRUE,sig |-> [own |-> 0, int |-> 1],q |-> [own |-> <<111>>, int |-> <<12, 0, 51>>],sentH |-> [own |-> <<111>>, int |-> <<11, 12, 0, 51>>],round |-> 1,npolls |-> 2,handled |-> <<11>>,recvH |-> [own |-> <<>>, int |-> <<11>>],ended |-> FALSE,alloc |-> TRUE,eof |-> FALSE]),
    ([xsent |-> 1,last |-> [d |-> "own", t |-> "I", a |-> "Sig", sent |-> TRUE],nsent |-> 2,lt |-> [S |-> [pc |-> "idle", d |-> "int", m |-> 51, wm |-> "none", inner |-> FALSE, then |-> "idle", res |-> -1], O |-> [pc |-> "Join", d |-> "int", m |-> 0, wm |-> "none", inner |-> FALSE, then |-> "Join", res |-> -1], I |-> [pc |-> "Drain", d |-> "int", m |-> 0, wm |-> "block", inner |-> FALSE, then |-> "loop", res |-> -1]],running |-> TRUE,sig |-> [own |-> 1, int |-> 1],q |-> [own |-> <<111>>, int |-> <<12, 0, 51>>],sentH |-> [own |-> <<111>>, int |-> <<11, 12, 0, 51>>],round |-> 1,npolls |-> 2,handled |-> <<11>>,recvH |-> [own |-> <<>>, int |-> <<11>>],ended |-> FALSE,alloc |-> TRUE,eof |-> FALSE]),
    ([xsent |-> 1,last |-> [d |-> "int", t |-> "I", a |-> "Drain"],nsent |-> 2,lt |-> [S |-> [pc |-> "idle", d |-> "int", m |-> 51, wm |-> "none", inner |-> FALSE, then |-> "idle", res |-> -1], O |-> [pc |-> "Join", d |-> "int", m |-> 0, wm |-> "none", inner |-> FALSE, then |-> "Join", res |-> -1], I |-> [pc |-> "Deq", d |-> "int", m |-> 0, wm |-> "block", inner |-> FALSE, then |-> "loop", res |-> -1]],running |-> TRUE,sig |-> [own |-> 1, int |-> 0],q |-> [own |-> <<111>>, int |-> <<12, 0, 51>>],sentH |-> [own |-> <<111>>, int |-> <<11, 12, 0, 51>>],round |-> 1,npolls |-> 2,handled |-> <<11>>,recvH |-> [own |-> <<>>, int |-> <<11>>],ended |-> FALSE,alloc |-> TRUE,eof |-> FALSE]),
    ([xsent |-> 1,last |-> [d |-> "int", m |-> 12, t |-> "I", a |-> "Deq", ok |-> TRUE, left |-> 2],nsent |-> 2,lt |-> [S |-> [pc |-> "idle", d |-> "int", m |-> 51, wm |-> "none", inner |-> FALSE, then |-> "idle", res |-> -1], O |-> [pc |-> "Join", d |-> "int", m |-> 0, wm |-> "none", inner |-> FALSE, then |-> "Join", res |-> -1], I |-> [pc |-> "Enq", d |-> "own", m |-> 112, wm |-> "block", inner |-> FALSE, then |-> "loop", res |-> -1]],running |-> TRUE,sig |-> [own |-> 1, int |-> 0],q |-> [own |-> <<111>>, int |-> <<0, 51>>],sentH |-> [own |-> <<111>>, int |-> <<11, 12, 0, 51>>],round |-> 1,npolls |-> 2,handled |-> <<11, 12>>,recvH |-> [own |-> <<>>, int |-> <<11, 12>>],ended |-> FALSE,alloc |-> TRUE,eof |-> FALSE]),
    ([xsent |-> 1,last |-> [d |-> "own", m |-> 112, t |-> "I", a |-> "Enq", first |-> FALSE, len |-> 2],nsent |-> 2,lt |-> [S |-> [pc |-> "idle", d |-> "int", m |-> 51, wm |-> "none", inner |-> FALSE, then |-> "idle", res |-> -1], O |-> [pc |-> "Join", d |-> "int", m |-> 0, wm |-> "none", inner |-> FALSE, then |-> "Join", res |-> -1], I |-> [pc |-> "Drain", d |-> "int", m |-> 0, wm |-> "block", inner |-> FALSE, then |-> "loop", res |-> -1]],running |-> TRUE,sig |-> [own |-> 1, int |-> 0],q |-> [own |-> <<111, 112>>, int |-> <<0, 51>>],sentH |-> [own |-> <<111, 112>>, int |-> <<11, 12, 0, 51>>],round |-> 1,npolls |-> 2,handled |-> <<11, 12>>,recvH |-> [own |-> <<>>, int |-> <<11, 12>>],ended |-> FALSE,alloc |-> TRUE,eof |-> FALSE]),
    ([xsent |-> 1,last |-> [d |-> "int", t |-> "I", a |-> "Drain"],nsent |-> 2,lt |-> [S |-> [pc |-> "idle", d |-> "int", m |-> 51, wm |-> "none", inner |-> FALSE, then |-> "idle", res |-> -1], O |-> [pc |-> "Join", d |-> "int", m |-> 0, wm |-> "none", inner |-> FALSE, then |-> "Join", res |-> -1], I |-> [pc |-> "Deq", d |-> "int", m |-> 0, wm |-> "block", inner |-> FALSE, then |-> "loop", res |-> -1]],running |-> TRUE,sig |-> [own |-> 1, int |-> 0],q |-> [own |-> <<111, 112>>, int |-> <<0, 51>>],sentH |-> [own |-> <<111, 112>>, int |-> <<11, 12, 0, 51>>],round |-> 1,npolls |-> 2,handled |-> <<11, 12>>,recvH |-> [own |-> <<>>, int |-> <<11, 12>>],ended |-> FALSE,alloc |-> TRUE,eof |-> FALSE]),
    ([xsent |-> 1,last |-> [d |-> "int", m |-> 0, t |-> "I", a |-> "Deq", ok |-> TRUE, left |-> 1],nsent |-> 2,lt |-> [S |-> [pc |-> "idle", d |-> "int", m |-> 51, wm |-> "none", inner |-> FALSE, then |-> "idle", res |-> -1], O |-> [pc |-> "Join", d |-> "int", m |-> 0, wm |-> "none", inner |-> FALSE, then |-> "Join", res |-> -1], I |-> [pc |-> "Close", d |-> "int", m |-> 0, wm |-> "block", inner |-> FALSE, then |-> "loop", res |-> -1]],running |-> TRUE,sig |-> [own |-> 1, int |-> 0],q |-> [own |-> <<111, 112>>, int |-> <<51>>],sentH |-> [own |-> <<111, 112>>, int |-> <<11, 12, 0, 51>>],round |-> 1,npolls |-> 2,handled |-> <<11, 12>>,recvH |-> [own |-> <<>>, int |-> <<11, 12, 0>>],ended |-> FALSE,alloc |-> TRUE,eof |-> FALSE]),
    ([xsent |-> 1,last |-> [t |-> "I", a |-> "Close", x |-> 0],nsent |-> 2,lt |-> [S |-> [pc |-> "idle", d |-> "int", m |-> 51, wm |-> "none", inner |-> FALSE, then |-> "idle", res |-> -1], O |-> [pc |-> "Join", d |-> "int", m |-> 0, wm |-> "none", inner |-> FALSE, then |-> "Join", res |-> -1], I |-> [pc |-> "off", d |-> "int", m |-> 0, wm |-> "block", inner |-> FALSE, then |-> "loop", res |-> -1]],running |-> TRUE,sig |-> [own |-> 1, int |-> 0],q |-> [own |-> <<111, 112>>, int |-> <<51>>],sentH |-> [own |-> <<111, 112>>, int |-> <<11, 12, 0, 51>>],round |-> 1,npolls |-> 2,handled |-> <<11, 12>>,recvH |-> [own |-> <<>>, int |-> <<11, 12, 0>>],ended |-> TRUE,alloc |-> TRUE,eof |-> TRUE]),
    ([xsent |-> 1,last |-> [t |-> "O", a |-> "OJoin", x |-> 0],nsent |-> 2,lt |-> [S |-> [pc |-> "idle", d |-> "int", m |-> 51, wm |-> "none", inner |-> FALSE, then |-> "idle", res |-> -1], O |-> [pc |-> "idle", d |-> "int", m |-> 0, wm |-> "none", inner |-> FALSE, then |-> "Join", res |-> -1], I |-> [pc |-> "off", d |-> "int", m |-> 0, wm |-> "block", inner |-> FALSE, then |-> "loop", res |-> -1]],running |-> FALSE,sig |-> [own |-> 0, int |-> 0],q |-> [own |-> <<111, 112>>, int |-> <<51>>],sentH |-> [own |-> <<111, 112>>, int |-> <<11, 12, 0, 51>>],round |-> 1,npolls |-> 2,handled |-> <<11, 12>>,recvH |-> [own |-> <<>>, int |-> <<11, 12, 0>>],ended |-> TRUE,alloc |-> FALSE,eof |-> FALSE])
    >>
----


=============================================================================

---- CONFIG ThreadImpl_TTrace_1790395692 ----
CONSTANTS
    Sockets = TRUE
    NMsgs = 2
    NExtra = 1
    Rounds = 2
    MaxPolls = 2
    RECORD = TRUE

PROPERTY
    _prop

CHECK_DEADLOCK
    \* CHECK_DEADLOCK off because of PROPERTY or INVARIANT above.
    FALSE

INIT
    _init

NEXT
    _next

CONSTANT
    _TETrace <- _trace

ALIAS
    _expression
=============================================================================
\* Generated on Sat Sep 26 04:09:23 UTC 2026