------------------------------ MODULE ThreadTrace ------------------------------
(* Trace validation for C11: every hooked operation of a real muscle::Thread run (queue critical sections, signals,     *)
(* drains, wake-ups, entry check, socket close; logged by the code's events and by the controlled scheduler, which       *)
(* gives them a total order) is replayed against ThreadImpl; every action of the specification is logged, so validation *)
(* is linear.  Executions are concatenated with {"e":"Reset"}.                                                           *)
EXTENDS ThreadImpl, Json, IOUtils

VARIABLE l
TraceLog == ndJsonDeserialize(IOEnv.TRACE)
N == Len(TraceLog)
TraceInit == Init /\ l = 1 /\ TLCSet(1, 0)

Step(ln) ==
   CASE ln.e = "OSend"     -> OSend /\ last'.m = ln.a
     [] ln.e = "SSend"     -> SSend /\ last'.m = ln.a
     [] ln.e = "OPoll"     -> OPoll
     [] ln.e = "OWait"     -> OWait
     [] ln.e = "OWaitTimed" -> OWaitTimed
     [] ln.e = "WakeTimeout" -> (WakeTimeout(ln.t) \/ Interrupt(ln.t)) /\ last'.d = ln.d
     [] ln.e = "OStart"    -> OStart
     [] ln.e = "OStartChk" -> OStartChk /\ last'.initial = (ln.a = 1)
     [] ln.e = "OShutdown" -> OShutdown
     [] ln.e = "OShutdownNoWait" -> OShutdownNoWait
     [] ln.e = "OWaitExit" -> OWaitExit
     [] ln.e = "OJoin"     -> OJoin
     [] ln.e = "Enq"       -> Enq(ln.t) /\ last'.d = ln.d /\ last'.m = ln.a /\ last'.len = ln.b /\ last'.first = (ln.c = 1)
     [] ln.e = "Deq"       -> Deq(ln.t) /\ last'.d = ln.d /\ last'.ok = (ln.a = 1) /\ last'.left = ln.b
     [] ln.e = "Signal"    -> (Sig(ln.t) \/ (ln.t = "O" /\ OStartSig)) /\ last'.d = ln.d /\ last'.sent = (ln.a = 1)
     [] ln.e = "Drain"     -> Drain(ln.t) /\ last'.d = ln.d
     [] ln.e = "Wake"      -> (WakeSock(ln.t) \/ WakeWC(ln.t) \/ EvWake(ln.t)) /\ last'.d = ln.d
     [] ln.e = "Entry"     -> Entry /\ last'.has = (ln.a = 1)
     [] ln.e = "Close"     -> Close
     [] OTHER -> FALSE

Evented == l <= N /\ TraceLog[l].e # "Reset" /\ Step(TraceLog[l]) /\ l' = l + 1
\* a new execution: the previous one must be over (nobody inside a call, internal thread joined)
TReset == /\ l <= N /\ TraceLog[l].e = "Reset"
          /\ lt["O"].pc = "idle" /\ lt["S"].pc = "idle" /\ ~running
          /\ q' = [d \in Dirs |-> <<>>] /\ sig' = [d \in Dirs |-> 0] /\ alloc' = ~Sockets /\ eof' = FALSE /\ running' = FALSE /\ ended' = FALSE
          /\ lt' = [t \in Thr |-> IF t = "I" THEN [L0 EXCEPT !.pc = "off"] ELSE L0]
          /\ round' = 0 /\ nsent' = 0 /\ xsent' = 0 /\ npolls' = 0 /\ tloop' = (CASE TraceLog[l].tl = 1 -> "timed" [] TraceLog[l].tl = 3 -> "event" [] OTHER -> "default") /\ nintr' = 0
          /\ sentH' = [d \in Dirs |-> <<>>] /\ recvH' = [d \in Dirs |-> <<>>] /\ handled' = <<>> /\ last' = [a |-> "Init"]
          /\ l' = l + 1
TraceNext == Evented \/ TReset
TraceSpec == TraceInit /\ [][TraceNext]_<<vars, l>>
NotAccepted == l <= N
Track == TLCSet(1, IF TLCGet(1) > l THEN TLCGet(1) ELSE l)
Report == PrintT(<<"maxline", TLCGet(1), "of", N>>)
=============================================================================
