SPECIFICATION FairSpec
CONSTANTS
  Sockets = FALSE
  NMsgs = 2
  NExtra = 1
  Rounds = 1
  MaxPolls = 1
  Mutation = "none"
  RECORD = FALSE
INVARIANTS Fifo PerSenderOrder RepliesInOrder
PROPERTIES NoLostWakeup ShutdownCompletes Delivered WaitReturns
