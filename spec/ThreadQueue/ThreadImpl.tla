------------------------------ MODULE ThreadImpl ------------------------------
(***************************************************************************)
(* system/Thread.cpp as coded: two FIFO Message queues between the owner    *)
(* (plus optional extra sender threads) and a Thread's internal thread,     *)
(* each protected by a lock, with "signal on first enqueue" through either  *)
(* a socket pair (bytes accumulate, the receiver drains them before it      *)
(* dequeues, blocks in select) or a wait-condition (counted notifications,  *)
(* flushed by Wait).  One action = one hooked operation of the code: a      *)
(* queue critical section, a signal, a drain, entering a blocking wait,     *)
(* waking from it, thread start / entry check / socket close / join.       *)
(*                                                                          *)
(* The property (C11) is at the bottom.                                     *)
(***************************************************************************)
EXTENDS Integers, Sequences, FiniteSets, TLC

CONSTANTS Sockets,     \* TRUE: socket-pair signalling, FALSE: wait-condition signalling
          NMsgs,       \* Messages the owner sends per round (ids 1..NMsgs per round, offset by round)
          NExtra,      \* Messages the extra sender thread "S" sends (0 = no such thread)
          Rounds,      \* start/shutdown rounds (2 = one restart)
          MaxPolls,    \* bound on the owner's non-blocking polls
          TimedLoops,  \* the internal thread's loop, a subset of {"default", "timed", "event"}: the library's default loop (waits without a deadline);
                       \* waits with a deadline (testthread.cpp); event-driven (testserverthread.cpp): select() on the wake-up socket FIRST, then poll until empty (socket mode only)
          MaxIntr,     \* bound on select() calls interrupted by a signal (EINTR): socket mode only
          Mutation,    \* "none"; "sig2" = signal when the queue length becomes 2 (a wrong design, used to show NoLostWakeup is not vacuous);
                       \* "readfirst" = StartInternalThread() looks for already-queued Messages BEFORE it allocates the sockets (the code before repair F46):
                       \* a send by another thread in between is signalled by nobody, and an event-driven internal thread never wakes
          RECORD

ASSUME (~Sockets) => ("event" \notin TimedLoops)
Dirs == {"int", "own"}            \* "int": owner -> internal thread, "own": internal thread -> owner
Thr  == {"O", "S", "I"}

VARIABLES q,          \* [Dirs -> Seq(Nat)]  the two _messages queues (0 = the NULL "please exit" Message)
          sig,        \* [Dirs -> Nat] wake-up bytes readable on the receiver's socket / pending count of its wait-condition
          alloc,      \* sockets allocated (always TRUE in wait-condition mode)
          eof,        \* the internal thread closed its end: the owner's socket selects as readable
          running,    \* _threadRunning
          ended,      \* the internal thread has returned from its entry function
          lt,         \* [Thr -> thread-local record]
          round,      \* number of StartInternalThread() calls so far
          nsent,      \* owner: Messages sent in this round
          xsent,      \* extra sender: Messages sent
          npolls,
          tloop,      \* the internal thread's loop: "default" | "timed" | "event"
          nintr,      \* interrupted select() calls so far
          sentH, recvH,   \* histories: enqueue order / dequeue order per direction (ghost)
          handled,    \* sequence of Messages the internal thread's handler saw (ghost)
          last

vars == <<q, sig, alloc, eof, running, ended, lt, round, nsent, xsent, npolls, tloop, nintr, sentH, recvH, handled, last>>

L0 == [pc |-> "idle", d |-> "int", m |-> 0, wm |-> "none", inner |-> FALSE, then |-> "idle", res |-> -1]
\* pc: idle | Enq | Sig | Drain | Deq | Block | EvBlock | Join | StartChk | StartSig | Entry | Close | off
\* wm: poll | block | timed (a deadline that may pass while the thread is blocked)        inner: the recursive zero-timeout call made after select() returned
\* then: where the thread continues after the current Send / Wait: "idle" (owner, sender) | "loop" (internal thread: back to the top of its loop) | "sleep" (event-driven internal thread: into its select())

Init == /\ q = [d \in Dirs |-> <<>>] /\ sig = [d \in Dirs |-> 0]
        /\ alloc = ~Sockets /\ eof = FALSE /\ running = FALSE /\ ended = FALSE
        /\ lt = [t \in Thr |-> IF t = "I" THEN [L0 EXCEPT !.pc = "off"] ELSE L0]
        /\ round = 0 /\ nsent = 0 /\ xsent = 0 /\ npolls = 0 /\ tloop \in TimedLoops /\ nintr = 0
        /\ sentH = [d \in Dirs |-> <<>>] /\ recvH = [d \in Dirs |-> <<>>] /\ handled = <<>>
        /\ last = [a |-> "Init"]

Log(t, a, rec) == last' = IF RECORD THEN [t |-> t, a |-> a] @@ rec ELSE last

CanSignal(d) == IF Sockets THEN alloc /\ (d = "own" => ~eof) ELSE TRUE
   \* SignalAux: sockets must be allocated and the sending side's descriptor valid (the internal side is closed after exit)

\* where a thread goes when its Send is complete: the internal thread's handler returns and the loop waits for the next Message
WaitStart(d, wm, then) == [L0 EXCEPT !.pc = IF (Sockets /\ alloc) THEN "Drain" ELSE "Deq", !.d = d, !.wm = wm, !.then = then]
\* top of the internal thread's loop: a blocking (or timed) WaitForNextMessageFromOwner(), or - event-driven - a non-blocking one; when that finds
\* nothing the event-driven thread goes to sleep in its own select() on the wake-up socket (EvBlock)
LoopWait == WaitStart("int", IF tloop = "timed" THEN "timed" ELSE IF tloop = "event" THEN "poll" ELSE "block", "loop")
EvSleep == [L0 EXCEPT !.pc = "EvBlock", !.d = "int", !.then = "loop"]
Cont(t) == IF lt[t].then = "loop" THEN LoopWait ELSE IF lt[t].then = "sleep" THEN EvSleep ELSE [lt[t] EXCEPT !.pc = lt[t].then]

\* ---- SendMessageAux ----------------------------------------------------------------------------------
\* [lock; AddTail; sendNotification := (size = 1); unlock]
Enq(t) == /\ lt[t].pc = "Enq"
          /\ LET d == lt[t].d  first == IF Mutation = "sig2" THEN Len(q[d]) = 1 ELSE (q[d] = <<>>) IN
             /\ q' = [q EXCEPT ![d] = Append(@, lt[t].m)]
             /\ sentH' = [sentH EXCEPT ![d] = Append(@, lt[t].m)]
             /\ lt' = [lt EXCEPT ![t] = IF first THEN [lt[t] EXCEPT !.pc = "Sig"] ELSE Cont(t)]
             /\ Log(t, "Enq", [d |-> d, m |-> lt[t].m, len |-> Len(q[d]) + 1, first |-> first])
          /\ UNCHANGED <<sig, alloc, eof, running, ended, round, nsent, xsent, npolls, tloop, nintr, recvH, handled>>
\* SignalInternalThread / SignalOwner
Sig(t) == /\ lt[t].pc = "Sig"
          /\ LET d == lt[t].d IN
             /\ sig' = IF CanSignal(d) THEN [sig EXCEPT ![d] = @ + 1] ELSE sig
             /\ Log(t, "Sig", [d |-> d, sent |-> CanSignal(d)])
          /\ lt' = [lt EXCEPT ![t] = Cont(t)]
          /\ UNCHANGED <<q, alloc, eof, running, ended, round, nsent, xsent, npolls, tloop, nintr, sentH, recvH, handled>>

\* ---- WaitForNextMessageAux -----------------------------------------------------------------------------
\* absorb the wake-up bytes (non-blocking recv)
Drain(t) == /\ lt[t].pc = "Drain"
            /\ sig' = [sig EXCEPT ![lt[t].d] = 0]
            /\ lt' = [lt EXCEPT ![t].pc = "Deq"]
            /\ Log(t, "Drain", [d |-> lt[t].d])
            /\ UNCHANGED <<q, alloc, eof, running, ended, round, nsent, xsent, npolls, tloop, nintr, sentH, recvH, handled>>
\* [lock; RemoveHead; unlock]; then return the Message, or B_TIMED_OUT for a poll, or go and block
Returned(t, m) ==      \* thread-local continuation after Wait returned m (-1 = B_TIMED_OUT)
    IF t = "I"
    THEN IF m = -1 THEN (IF tloop = "event" THEN EvSleep ELSE LoopWait)                                                                  \* "recoverable": wait again
         ELSE IF m = 0 THEN [lt[t] EXCEPT !.pc = "Close"]                                                                   \* NULL Message: exit
         ELSE [lt[t] EXCEPT !.pc = "Enq", !.d = "own", !.m = m + 100, !.then = "loop", !.inner = FALSE]                     \* handler: send the reply
    ELSE [lt[t] EXCEPT !.pc = "idle", !.res = m, !.inner = FALSE]
Deq(t) == /\ lt[t].pc = "Deq"
          /\ LET d == lt[t].d IN
             IF q[d] # <<>>
             THEN /\ q' = [q EXCEPT ![d] = Tail(@)]
                  /\ recvH' = [recvH EXCEPT ![d] = Append(@, Head(q[d]))]
                  /\ handled' = IF t = "I" /\ Head(q[d]) # 0 THEN Append(handled, Head(q[d])) ELSE handled
                  /\ lt' = [lt EXCEPT ![t] = Returned(t, Head(q[d]))]
                  /\ Log(t, "Deq", [d |-> d, ok |-> TRUE, m |-> Head(q[d]), left |-> Len(q[d]) - 1])
             ELSE /\ UNCHANGED <<q, recvH, handled>>
                  /\ lt' = [lt EXCEPT ![t] = IF lt[t].wm = "poll" \/ lt[t].inner THEN Returned(t, -1) ELSE [lt[t] EXCEPT !.pc = "Block"]]
                  /\ Log(t, "Deq", [d |-> d, ok |-> FALSE, m |-> -1, left |-> 0])
          /\ UNCHANGED <<sig, alloc, eof, running, ended, round, nsent, xsent, npolls, tloop, nintr, sentH>>
\* socket mode: select() says the socket is readable (a byte, or EOF on the owner's side): poll again with timeout 0
WakeSock(t) == /\ lt[t].pc = "Block" /\ Sockets
               /\ LET d == lt[t].d IN sig[d] > 0 \/ (d = "own" /\ eof)
               /\ lt' = [lt EXCEPT ![t].pc = "Drain", ![t].inner = TRUE]
               /\ Log(t, "Wake", [d |-> lt[t].d])
               /\ UNCHANGED <<q, sig, alloc, eof, running, ended, round, nsent, xsent, npolls, tloop, nintr, sentH, recvH, handled>>
\* wait-condition mode: Wait() returns and flushes the count; the call is repeated with the original deadline
WakeWC(t) == /\ lt[t].pc = "Block" /\ ~Sockets
             /\ sig[lt[t].d] > 0
             /\ sig' = [sig EXCEPT ![lt[t].d] = 0]
             /\ lt' = [lt EXCEPT ![t].pc = "Deq"]
             /\ Log(t, "Wake", [d |-> lt[t].d])
             /\ UNCHANGED <<q, alloc, eof, running, ended, round, nsent, xsent, npolls, tloop, nintr, sentH, recvH, handled>>
\* the deadline of a timed wait passes while the thread is blocked: B_TIMED_OUT (both mechanisms)
WakeTimeout(t) == /\ lt[t].pc = "Block" /\ lt[t].wm = "timed"
                  /\ lt' = [lt EXCEPT ![t] = Returned(t, -1)]
                  /\ Log(t, "WakeTimeout", [d |-> lt[t].d])
                  /\ UNCHANGED <<q, sig, alloc, eof, running, ended, round, nsent, xsent, npolls, tloop, nintr, sentH, recvH, handled>>
\* socket mode: a signal interrupts select() (EINTR): SocketMultiplexer::WaitForEvents() returns B_NO_ERROR with nothing flagged and
\* WaitForNextMessageAux() reports B_TIMED_OUT whatever the deadline was (the default loop calls that "recoverable" and waits again)
Interrupt(t) == /\ Sockets /\ lt[t].pc = "Block" /\ nintr < MaxIntr
                /\ nintr' = nintr + 1
                /\ lt' = [lt EXCEPT ![t] = Returned(t, -1)]
                /\ Log(t, "WakeTimeout", [d |-> lt[t].d])
                /\ UNCHANGED <<q, sig, alloc, eof, running, ended, round, nsent, xsent, npolls, tloop, sentH, recvH, handled>>
\* event-driven internal thread: its own select() on the wake-up socket returns (a byte is readable); it then polls until the queue is empty
EvWake(t) == /\ lt[t].pc = "EvBlock" /\ sig[lt[t].d] > 0
             /\ lt' = [lt EXCEPT ![t] = LoopWait]
             /\ Log(t, "Wake", [d |-> lt[t].d])
             /\ UNCHANGED <<q, sig, alloc, eof, running, ended, round, nsent, xsent, npolls, tloop, nintr, sentH, recvH, handled>>
\* ---- the internal thread's life ------------------------------------------------------------------------
\* InternalThreadEntryAux: [lock owner queue; if it already holds replies: SignalOwner(); unlock]
\* (the signal is a separate action here although the code sends it with the lock still held: a harmless over-approximation)
Entry == /\ lt["I"].pc = "Entry"
         /\ lt' = [lt EXCEPT !["I"] = IF q["own"] # <<>> THEN [L0 EXCEPT !.pc = "Sig", !.d = "own", !.then = IF tloop = "event" THEN "sleep" ELSE "loop"] ELSE (IF tloop = "event" THEN EvSleep ELSE LoopWait)]
         /\ Log("I", "Entry", [has |-> (q["own"] # <<>>)])
         /\ UNCHANGED <<q, sig, alloc, eof, running, ended, round, nsent, xsent, npolls, tloop, nintr, sentH, recvH, handled>>
\* ... _messageSocket.Reset() (the owner sees EOF), then the thread ends
Close == /\ lt["I"].pc = "Close"
         /\ eof' = (Sockets /\ alloc)
         /\ ended' = TRUE
         /\ lt' = [lt EXCEPT !["I"].pc = "off"]
         /\ Log("I", "Close", [x |-> 0])
         /\ UNCHANGED <<q, sig, alloc, running, round, nsent, xsent, npolls, tloop, nintr, sentH, recvH, handled>>

\* ---- the owner's public calls ----------------------------------------------------------------------------
Outstanding == Len(SelectSeq(sentH["int"], LAMBDA x : x # 0)) - Len(recvH["own"])   \* replies still to come (or waiting in the queue)
ShutSent == round > 0 /\ Len(SelectSeq(sentH["int"], LAMBDA x : x = 0)) = round       \* this round's NULL Message has been queued

OSend == /\ lt["O"].pc = "idle" /\ nsent < NMsgs /\ ~ShutSent
         /\ lt' = [lt EXCEPT !["O"] = [L0 EXCEPT !.pc = "Enq", !.d = "int", !.m = (IF round = 0 THEN 1 ELSE round) * 10 + nsent + 1, !.then = "idle"]]
         /\ nsent' = nsent + 1
         /\ Log("O", "OSend", [m |-> (IF round = 0 THEN 1 ELSE round) * 10 + nsent + 1])
         /\ UNCHANGED <<q, sig, alloc, eof, running, ended, round, xsent, npolls, tloop, nintr, sentH, recvH, handled>>
OPoll == /\ lt["O"].pc = "idle" /\ npolls < MaxPolls
         /\ lt' = [lt EXCEPT !["O"] = WaitStart("own", "poll", "idle")]
         /\ npolls' = npolls + 1
         /\ Log("O", "OPoll", [x |-> 0])
         /\ UNCHANGED <<q, sig, alloc, eof, running, ended, round, nsent, xsent, tloop, nintr, sentH, recvH, handled>>
\* a blocking GetNextReplyFromInternalThread(): only generated when a reply is certain to come
OWait == /\ lt["O"].pc = "idle" /\ running /\ ~ShutSent /\ Outstanding > 0
         /\ lt' = [lt EXCEPT !["O"] = WaitStart("own", "block", "idle")]
         /\ Log("O", "OWait", [x |-> 0])
         /\ UNCHANGED <<q, sig, alloc, eof, running, ended, round, nsent, xsent, npolls, tloop, nintr, sentH, recvH, handled>>
\* GetNextReplyFromInternalThread() with a deadline: may be called at any time, returns a reply or B_TIMED_OUT
OWaitTimed == /\ lt["O"].pc = "idle" /\ running /\ npolls < MaxPolls
              /\ lt' = [lt EXCEPT !["O"] = WaitStart("own", "timed", "idle")]
              /\ npolls' = npolls + 1
              /\ Log("O", "OWaitTimed", [x |-> 0])
              /\ UNCHANGED <<q, sig, alloc, eof, running, ended, round, nsent, xsent, tloop, nintr, sentH, recvH, handled>>
\* StartInternalThread() (as repaired, F46): allocate the sockets, mark the thread running, spawn it ...
OStart == /\ lt["O"].pc = "idle" /\ ~running /\ round < Rounds /\ Mutation # "readfirst"
          /\ running' = TRUE /\ alloc' = TRUE /\ ended' = FALSE /\ round' = round + 1
          /\ nsent' = IF round = 0 THEN nsent ELSE 0
          /\ lt' = [lt EXCEPT !["O"] = [L0 EXCEPT !.pc = "StartChk"], !["I"] = [L0 EXCEPT !.pc = "Entry"]]
          /\ Log("O", "OStart", [x |-> 0])
          /\ UNCHANGED <<q, sig, eof, xsent, npolls, tloop, nintr, sentH, recvH, handled>>
\* ... then [lock the queue; needsInitialSignal := queue non-empty; unlock] (whatever was queued before the sockets existed could not be signalled by its sender) ...
OStartChk == /\ lt["O"].pc = "StartChk"
             /\ lt' = [lt EXCEPT !["O"].pc = IF q["int"] # <<>> THEN "StartSig" ELSE "idle"]
             /\ Log("O", "OStartChk", [initial |-> (q["int"] # <<>>)])
             /\ UNCHANGED <<q, sig, alloc, eof, running, ended, round, nsent, xsent, npolls, tloop, nintr, sentH, recvH, handled>>
\* the order before the repair (Mutation = "readfirst"): read first (without the lock), then allocate / spawn
OStartOld == /\ lt["O"].pc = "idle" /\ ~running /\ round < Rounds /\ Mutation = "readfirst"
             /\ lt' = [lt EXCEPT !["O"] = [L0 EXCEPT !.pc = "Start2", !.m = IF q["int"] # <<>> THEN 1 ELSE 0]]
             /\ Log("O", "OStartOld", [initial |-> (q["int"] # <<>>)])
             /\ UNCHANGED <<q, sig, alloc, eof, running, ended, round, nsent, xsent, npolls, tloop, nintr, sentH, recvH, handled>>
OStart2Old == /\ lt["O"].pc = "Start2"
              /\ running' = TRUE /\ alloc' = TRUE /\ ended' = FALSE /\ round' = round + 1
              /\ nsent' = IF round = 0 THEN nsent ELSE 0
              /\ lt' = [lt EXCEPT !["O"] = [L0 EXCEPT !.pc = IF lt["O"].m = 1 THEN "StartSig" ELSE "idle"], !["I"] = [L0 EXCEPT !.pc = "Entry"]]
              /\ Log("O", "OStart2Old", [x |-> 0])
              /\ UNCHANGED <<q, sig, eof, xsent, npolls, tloop, nintr, sentH, recvH, handled>>
\* ... and signal it if Messages were already queued
OStartSig == /\ lt["O"].pc = "StartSig"
             /\ sig' = IF CanSignal("int") THEN [sig EXCEPT !["int"] = @ + 1] ELSE sig
             /\ lt' = [lt EXCEPT !["O"].pc = "idle"]
             /\ Log("O", "Sig", [d |-> "int", sent |-> CanSignal("int")])
             /\ UNCHANGED <<q, alloc, eof, running, ended, round, nsent, xsent, npolls, tloop, nintr, sentH, recvH, handled>>
\* ShutdownInternalThread(true): send the NULL Message, then join
OShutdown == /\ lt["O"].pc = "idle" /\ running /\ ~ShutSent
             /\ lt' = [lt EXCEPT !["O"] = [L0 EXCEPT !.pc = "Enq", !.d = "int", !.m = 0, !.then = "Join"]]
             /\ Log("O", "OShutdown", [x |-> 0])
             /\ UNCHANGED <<q, sig, alloc, eof, running, ended, round, nsent, xsent, npolls, tloop, nintr, sentH, recvH, handled>>
\* ShutdownInternalThread(false): only send the NULL Message; WaitForInternalThreadToExit() is called separately later
OShutdownNoWait == /\ lt["O"].pc = "idle" /\ running /\ ~ShutSent
                   /\ lt' = [lt EXCEPT !["O"] = [L0 EXCEPT !.pc = "Enq", !.d = "int", !.m = 0, !.then = "idle"]]
                   /\ Log("O", "OShutdownNoWait", [x |-> 0])
                   /\ UNCHANGED <<q, sig, alloc, eof, running, ended, round, nsent, xsent, npolls, tloop, nintr, sentH, recvH, handled>>
OWaitExit == /\ lt["O"].pc = "idle" /\ running /\ ShutSent
             /\ lt' = [lt EXCEPT !["O"].pc = "Join"]
             /\ Log("O", "OWaitExit", [x |-> 0])
             /\ UNCHANGED <<q, sig, alloc, eof, running, ended, round, nsent, xsent, npolls, tloop, nintr, sentH, recvH, handled>>
\* join() returns once the internal thread has ended; then CloseSockets()
OJoin == /\ lt["O"].pc = "Join" /\ ended
         /\ running' = FALSE
         /\ alloc' = ~Sockets /\ eof' = FALSE
         /\ sig' = IF Sockets THEN [d \in Dirs |-> 0] ELSE sig
         /\ lt' = [lt EXCEPT !["O"].pc = "idle"]
         /\ Log("O", "OJoin", [x |-> 0])
         /\ UNCHANGED <<q, ended, round, nsent, xsent, npolls, tloop, nintr, sentH, recvH, handled>>

\* ---- the extra sender ------------------------------------------------------------------------------------
SSend == /\ NExtra > 0 /\ lt["S"].pc = "idle" /\ xsent < NExtra /\ ~ShutSent
         /\ lt' = [lt EXCEPT !["S"] = [L0 EXCEPT !.pc = "Enq", !.d = "int", !.m = 50 + xsent + 1, !.then = "idle"]]
         /\ xsent' = xsent + 1
         /\ Log("S", "SSend", [m |-> 50 + xsent + 1])
         /\ UNCHANGED <<q, sig, alloc, eof, running, ended, round, nsent, npolls, tloop, nintr, sentH, recvH, handled>>

TNext(t) == \/ Enq(t) \/ Sig(t) \/ Drain(t) \/ Deq(t) \/ WakeSock(t) \/ WakeWC(t) \/ EvWake(t) \/ WakeTimeout(t) \/ Interrupt(t)
            \/ (t = "I" /\ (Entry \/ Close))
            \/ (t = "O" /\ (OSend \/ OPoll \/ OWait \/ OWaitTimed \/ OStart \/ OStartChk \/ OStartOld \/ OStart2Old \/ OStartSig \/ OShutdown \/ OShutdownNoWait \/ OWaitExit \/ OJoin))
            \/ (t = "S" /\ SSend)
Next == \E t \in Thr : TNext(t)
Spec == Init /\ [][Next]_vars
\* fairness: the library's own steps are taken (a deadline passing or a signal arriving is never forced); the owner's *choices* (send, poll, start, shutdown) are not forced
LibNext(t) == Enq(t) \/ Sig(t) \/ Drain(t) \/ Deq(t) \/ WakeSock(t) \/ WakeWC(t) \/ EvWake(t) \/ (t = "I" /\ (Entry \/ Close)) \/ (t = "O" /\ (OStartChk \/ OStart2Old \/ OStartSig \/ OJoin))
FairSpec == Spec /\ \A t \in Thr : WF_vars(LibNext(t))
\* ... and for termination the owner is assumed to go on as long as it can
FairSpecAll == Spec /\ \A t \in Thr : WF_vars(TNext(t))

-------------------------------------------------------------------------------
(* The property *)
IsPrefix(a, b) == Len(a) <= Len(b) /\ SubSeq(b, 1, Len(a)) = a

\* exactly once, in order: what was dequeued is a prefix of what was enqueued, the rest is still queued
Fifo == \A d \in Dirs : recvH[d] \o q[d] = sentH[d]
\* each sender's Messages keep their order (the queue order is the order of the critical sections)
PerSenderOrder == LET own == SelectSeq(handled, LAMBDA x : x < 50 \/ x > 60)   xs == SelectSeq(handled, LAMBDA x : x > 50 /\ x <= 60)
                  IN /\ \A i, j \in 1..Len(own) : i < j => own[i] < own[j]
                     /\ \A i, j \in 1..Len(xs) : i < j => xs[i] < xs[j]
\* replies come back in the order the Messages were handled
RepliesInOrder == sentH["own"] = [i \in 1..Len(sentH["own"]) |-> handled[i] + 100]

\* no lost wake-up: a receiver blocked while a Message is queued for it always wakes
NoLostWakeup == \A t \in {"O", "I"} : (lt[t].pc \in {"Block", "EvBlock"} /\ q[lt[t].d] # <<>>) ~> (lt[t].pc \notin {"Block", "EvBlock"})
\* asking the thread to shut down and waiting for it always completes
ShutdownCompletes == (lt["O"].pc = "Join") ~> (lt["O"].pc # "Join")
\* Messages queued for the internal thread while it runs (or before it is started) are handled
MsgIds == {r * 10 + k : r \in 1..Rounds, k \in 1..NMsgs} \cup {50 + k : k \in 1..NExtra}
Delivered == \A m \in MsgIds : (running /\ ~ShutSent /\ \E i \in 1..Len(q["int"]) : q["int"][i] = m) ~> (\E i \in 1..Len(handled) : handled[i] = m)
\* a blocking wait for a reply that is certain to come returns
WaitReturns == (lt["O"].wm = "block" /\ lt["O"].pc # "idle") ~> (lt["O"].pc = "idle")
=============================================================================
