SPECIFICATION FairSpec
CONSTANTS
  Sockets = TRUE
  NMsgs = 2
  NExtra = 0
  Rounds = 1
  MaxPolls = 0
  Mutation = "sig2"
  RECORD = FALSE
PROPERTIES NoLostWakeup
