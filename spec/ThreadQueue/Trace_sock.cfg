SPECIFICATION TraceSpec
CONSTANTS
  Sockets = TRUE
  NMsgs = 3
  NExtra = 2
  Rounds = 2
  MaxPolls = 100000
  TimedLoops = {"default"}
  MaxIntr = 100000
  Mutation = "none"
  RECORD = TRUE
INVARIANTS NotAccepted Fifo PerSenderOrder RepliesInOrder
CONSTRAINT Track
POSTCONDITION Report
