-------------------------------- MODULE RefImpl --------------------------------
(***************************************************************************)
(* util/RefCount.h as coded: Ref slots pointing at reference-counted,       *)
(* pooled objects.  Every public operation on a Ref is broken into the      *)
(* steps the code takes: atomic decrement of the old object's count (and,   *)
(* if it reached zero, recycling it), storing the pointer, atomic increment *)
(* of the new object's count.  Threads own private slots; one shared slot   *)
(* (a mailbox) is only touched under a Mutex.  An object goes back to its   *)
(* pool when recycled and can then be obtained again (a new incarnation).   *)
(* Objects may hold a Ref to another object themselves (a singly linked     *)
(* chain, single-threaded instances only: a Ref is not itself thread-safe): *)
(* recycling an object drops its member Ref, which may recycle the next     *)
(* object, and so on.                                                       *)
(* The property (C10, reference part) is at the bottom.                     *)
(***************************************************************************)
EXTENDS Integers, Sequences, FiniteSets, TLC
CONSTANTS T, O, K, MaxOps, RECORD,
          Chains,   \* TRUE: objects have a member Ref "next"; operations Link (obj.next := slot) and Pop (slot := slot's obj.next)
          Order     \* "ref_first": SetRef counts the new item before it gives up the old one (as coded);
                    \* "unref_first": the other way round - wrong when the old item holds the last other reference to the new one
                    \* (slot := slot->next): kept to show that NeverEarly is not vacuous
ASSUME Chains => Cardinality(T) = 1
VARIABLES cnt,     \* [O -> Nat] the atomic reference count
          alive,   \* [O -> BOOLEAN] obtained from the pool and not yet recycled
          slot,    \* [T -> [1..K -> O \cup {0}]] private Ref slots (0 = NULL)
          mbox,    \* shared Ref slot
          lock,    \* holder of the mailbox Mutex, or 0
          todo,    \* [T -> Seq(step)] the remaining steps of the thread's current operation
          nops,    \* [T -> Nat]
          nrel,    \* [O -> Nat] how often the object was recycled (ghost)
          nobt,    \* [O -> Nat] how often the object was obtained (ghost)
          nxt,     \* [O -> O \cup {0}] the object's member Ref
          last
vars == <<cnt, alive, slot, mbox, lock, todo, nops, nrel, nobt, nxt, last>>

Init == /\ cnt = [o \in O |-> 0] /\ alive = [o \in O |-> FALSE]
        /\ slot = [t \in T |-> [k \in 1..K |-> 0]] /\ mbox = 0 /\ lock = 0
        /\ todo = [t \in T |-> <<>>] /\ nops = [t \in T |-> 0]
        /\ nrel = [o \in O |-> 0] /\ nobt = [o \in O |-> 0] /\ nxt = [o \in O |-> 0] /\ last = [a |-> "Init"]
Log(t, a, rec) == last' = IF RECORD THEN [t |-> t, a |-> a] @@ rec ELSE last

\* ConstRef::SetRef(item): nothing if it is the same item; otherwise a temporary Ref counts the new item, the two are swapped, and the
\* temporary's destructor gives up the old item
SetRefSteps(loc, cur, new) ==
    IF cur = new THEN <<>>
    ELSE IF Order = "ref_first"
         THEN (IF new # 0 THEN <<[k |-> "inc", o |-> new]>> ELSE <<>>) \o <<[k |-> "store", loc |-> loc, v |-> new]>> \o (IF cur # 0 THEN <<[k |-> "dec", o |-> cur]>> ELSE <<>>)
         ELSE (IF cur # 0 THEN <<[k |-> "dec", o |-> cur]>> ELSE <<>>) \o <<[k |-> "store", loc |-> loc, v |-> new]>> \o (IF new # 0 THEN <<[k |-> "inc", o |-> new]>> ELSE <<>>)

Idle(t) == todo[t] = <<>> /\ nops[t] < MaxOps
Begin(t, steps, a, rec) == /\ todo' = [todo EXCEPT ![t] = steps] /\ nops' = [nops EXCEPT ![t] = @ + 1] /\ Log(t, a, rec)

\* pool.ObtainObject() (one critical section of the pool), then slot k := Ref(o)
New(t, k) == /\ Idle(t) /\ \E o \in O : ~alive[o] /\ cnt[o] = 0 /\ (\A p \in O : (p < o) => alive[p])
             /\ LET o == CHOOSE x \in O : ~alive[x] /\ (\A p \in O : (p < x) => alive[p]) IN
                /\ alive' = [alive EXCEPT ![o] = TRUE] /\ nobt' = [nobt EXCEPT ![o] = @ + 1]
                /\ Begin(t, SetRefSteps(<<t, k>>, slot[t][k], o), "New", [k |-> k, o |-> o])
             /\ UNCHANGED <<cnt, slot, mbox, lock, nrel, nxt>>
Copy(t, k, j) == /\ Idle(t) /\ k # j
                 /\ Begin(t, SetRefSteps(<<t, k>>, slot[t][k], slot[t][j]), "Copy", [k |-> k, j |-> j])
                 /\ UNCHANGED <<cnt, alive, slot, mbox, lock, nrel, nobt, nxt>>
Reset(t, k) == /\ Idle(t) /\ slot[t][k] # 0
               /\ Begin(t, <<[k |-> "dec", o |-> slot[t][k]], [k |-> "store", loc |-> <<t, k>>, v |-> 0]>>, "Reset", [k |-> k])
               /\ UNCHANGED <<cnt, alive, slot, mbox, lock, nrel, nobt, nxt>>
\* swapping two Refs touches no count
Swap(t, k, j) == /\ Idle(t) /\ k < j /\ slot[t][k] # slot[t][j]
                 /\ slot' = [slot EXCEPT ![t] = [@ EXCEPT ![k] = slot[t][j], ![j] = slot[t][k]]]
                 /\ nops' = [nops EXCEPT ![t] = @ + 1] /\ Log(t, "Swap", [k |-> k, j |-> j])
                 /\ UNCHANGED <<cnt, alive, mbox, lock, todo, nrel, nobt, nxt>>
\* a temporary alias of slot k that switches reference counting on (or off) for the SAME item: SetRef(item, flag) with the item
\* unchanged must adjust the count by exactly one; the temporary then dies
Alias(t, k) == /\ Idle(t) /\ slot[t][k] # 0
               /\ Begin(t, <<[k |-> "inc", o |-> slot[t][k]], [k |-> "dec", o |-> slot[t][k]]>>, "Alias", [k |-> k])
               /\ UNCHANGED <<cnt, alive, slot, mbox, lock, nrel, nobt, nxt>>
\* under the mailbox lock: mailbox := slot k   /   slot k := mailbox
Publish(t, k) == /\ Idle(t) /\ lock = 0 /\ lock' = t
                 /\ Begin(t, SetRefSteps(<<0, 0>>, mbox, slot[t][k]) \o <<[k |-> "unlock"]>>, "Publish", [k |-> k])
                 /\ UNCHANGED <<cnt, alive, slot, mbox, nrel, nobt, nxt>>
Take(t, k) == /\ Idle(t) /\ lock = 0 /\ lock' = t
              /\ Begin(t, SetRefSteps(<<t, k>>, slot[t][k], mbox) \o <<[k |-> "unlock"]>>, "Take", [k |-> k])
              /\ UNCHANGED <<cnt, alive, slot, mbox, nrel, nobt, nxt>>

\* obj(slot k).next := slot j   (never making a cycle: a cycle of counted references is a leak by construction, not the library's doing)
RECURSIVE ReachN(_, _, _)
ReachN(a, b, n) == IF a = 0 \/ n = 0 THEN FALSE ELSE IF a = b THEN TRUE ELSE ReachN(nxt[a], b, n - 1)
Reach(a, b) == ReachN(a, b, Cardinality(O) + 1)
Link(t, k, j) == /\ Chains /\ Idle(t) /\ slot[t][k] # 0 /\ ~Reach(slot[t][j], slot[t][k])
                 /\ Begin(t, SetRefSteps(<<-1, slot[t][k]>>, nxt[slot[t][k]], slot[t][j]), "Link", [k |-> k, j |-> j])
                 /\ UNCHANGED <<cnt, alive, slot, mbox, lock, nrel, nobt, nxt>>
\* slot k := obj(slot k).next   (pop the head of a chain: the old head may hold the last other reference to the new one)
Pop(t, k) == /\ Chains /\ Idle(t) /\ slot[t][k] # 0
             /\ Begin(t, SetRefSteps(<<t, k>>, slot[t][k], nxt[slot[t][k]]), "Pop", [k |-> k])
             /\ UNCHANGED <<cnt, alive, slot, mbox, lock, nrel, nobt, nxt>>

\* one step of the current operation
Step(t) == /\ todo[t] # <<>>
           /\ LET s == Head(todo[t]) IN
              CASE s.k = "dec" ->
                     /\ cnt' = [cnt EXCEPT ![s.o] = @ - 1]
                     /\ todo' = [todo EXCEPT ![t] = IF cnt[s.o] = 1 THEN <<[k |-> "recycle", o |-> s.o]>> \o Tail(@) ELSE Tail(@)]
                     /\ Log(t, "Dec", [o |-> s.o, zero |-> (cnt[s.o] = 1)])
                     /\ UNCHANGED <<alive, slot, mbox, lock, nrel, nxt>>
                [] s.k = "inc" ->
                     /\ cnt' = [cnt EXCEPT ![s.o] = @ + 1] /\ todo' = [todo EXCEPT ![t] = Tail(@)]
                     /\ Log(t, "Inc", [o |-> s.o, zero |-> FALSE])
                     /\ UNCHANGED <<alive, slot, mbox, lock, nrel, nxt>>
                [] s.k = "recycle" /\ nxt[s.o] # 0 ->      \* the object is reset / destroyed first: its member Ref lets go of the next object
                     /\ todo' = [todo EXCEPT ![t] = <<[k |-> "dec", o |-> nxt[s.o]], [k |-> "store", loc |-> <<-1, s.o>>, v |-> 0], s>> \o Tail(@)]
                     /\ UNCHANGED <<cnt, alive, slot, mbox, lock, nrel, nxt, last>>
                [] s.k = "recycle" /\ nxt[s.o] = 0 ->
                     /\ alive' = [alive EXCEPT ![s.o] = FALSE] /\ nrel' = [nrel EXCEPT ![s.o] = @ + 1] /\ todo' = [todo EXCEPT ![t] = Tail(@)]
                     /\ Log(t, "Recycle", [o |-> s.o, zero |-> FALSE])
                     /\ UNCHANGED <<cnt, slot, mbox, lock, nxt>>
                [] s.k = "store" ->
                     /\ IF s.loc = <<0, 0>> THEN mbox' = s.v /\ UNCHANGED <<slot, nxt>>
                        ELSE IF s.loc[1] = -1 THEN nxt' = [nxt EXCEPT ![s.loc[2]] = s.v] /\ UNCHANGED <<slot, mbox>>
                        ELSE slot' = [slot EXCEPT ![s.loc[1]][s.loc[2]] = s.v] /\ UNCHANGED <<mbox, nxt>>
                     /\ todo' = [todo EXCEPT ![t] = Tail(@)] /\ UNCHANGED last
                     /\ UNCHANGED <<cnt, alive, lock, nrel>>
                [] s.k = "unlock" ->
                     /\ lock' = 0 /\ todo' = [todo EXCEPT ![t] = Tail(@)] /\ UNCHANGED last
                     /\ UNCHANGED <<cnt, alive, slot, mbox, nrel, nxt>>
           /\ UNCHANGED <<nops, nobt>>

Next == \E t \in T : \/ Step(t)
                     \/ \E k \in 1..K : New(t, k) \/ Reset(t, k) \/ Alias(t, k) \/ Publish(t, k) \/ Take(t, k) \/ Pop(t, k) \/ \E j \in 1..K : Copy(t, k, j) \/ Swap(t, k, j) \/ Link(t, k, j)
Spec == Init /\ [][Next]_vars
-------------------------------------------------------------------------------
Refs(o) == Cardinality({<<t, k>> \in T \X (1..K) : slot[t][k] = o}) + (IF mbox = o THEN 1 ELSE 0) + Cardinality({p \in O : alive[p] /\ nxt[p] = o})
PendingObjs(t) == {todo[t][i].o : i \in {j \in 1..Len(todo[t]) : todo[t][j].k \in {"inc", "dec"}}} \cup {todo[t][i].v : i \in {j \in 1..Len(todo[t]) : todo[t][j].k = "store"}}
\* a slot that the running operation is about to overwrite may dangle for that moment (UnrefItem(); then the pointer is replaced)
Overwriting(t) == {todo[t][i].loc : i \in {j \in 1..Len(todo[t]) : todo[t][j].k = "store"}}
AllOverwriting == UNION {Overwriting(t) : t \in T}
\* never early: whatever a Ref points at (or is about to count / point at) has not been recycled
NeverEarly == /\ \A t \in T, k \in 1..K : (slot[t][k] # 0 /\ <<t, k>> \notin Overwriting(t)) => alive[slot[t][k]]
              /\ ((mbox # 0 /\ <<0, 0>> \notin AllOverwriting) => alive[mbox])
              /\ \A p \in O : (alive[p] /\ nxt[p] # 0 /\ <<-1, p>> \notin AllOverwriting) => alive[nxt[p]]
              /\ \A t \in T : \A o \in PendingObjs(t) \ {0} : alive[o]
\* a pending recycle is for an object whose count is zero and that no other Ref points at
RefsExcept(o, locs) == Cardinality({<<t, k>> \in T \X (1..K) : slot[t][k] = o /\ <<t, k>> \notin locs}) + (IF mbox = o /\ <<0, 0>> \notin locs THEN 1 ELSE 0)
                       + Cardinality({p \in O : alive[p] /\ nxt[p] = o /\ <<-1, p>> \notin locs})
RecycleOnlyUnreferenced == \A t \in T : \A i \in 1..Len(todo[t]) : todo[t][i].k = "recycle" =>
                               (cnt[todo[t][i].o] = 0 /\ alive[todo[t][i].o] /\ RefsExcept(todo[t][i].o, AllOverwriting) = 0)
\* exactly once: an object is recycled once per incarnation
ExactlyOnce == \A o \in O : nrel[o] <= nobt[o] /\ (alive[o] <=> nobt[o] = nrel[o] + 1)
\* when nothing is in flight the count is the number of Refs, and an object with no Ref is back in the pool
Quiet == (\A t \in T : todo[t] = <<>>) => \A o \in O : cnt[o] = Refs(o) /\ (alive[o] <=> Refs(o) > 0)
=============================================================================
