SPECIFICATION Spec
CONSTANTS
  T = {1, 2}
  O = {1, 2}
  K = 2
  MaxOps = 3
  RECORD = FALSE
INVARIANTS NeverEarly RecycleOnlyUnreferenced ExactlyOnce Quiet
