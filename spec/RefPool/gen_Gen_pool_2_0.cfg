SPECIFICATION Spec
CONSTANTS
  N = 2
  MaxPool = 0
  MaxLive = 4
  MaxSlabs = 4
  RECORD = TRUE
INVARIANTS CurExact NodesPartition HeldExact NoLiveInDeleted FreeFirst Bounded
