-------------------------------- MODULE RefTrace --------------------------------
(* RefAbs + trace validation for C10: the atomic count operations, obtains and recycles of a real run (observed by the      *)
(* controlled scheduler in the order they really happened) must be a behaviour of the abstract reference-count machine:       *)
(* an object is obtained only when it is in the pool, counted only while it is live, recycled exactly when its count has      *)
(* returned to zero (a pooled object by its pool, a heap-allocated copy by delete - never the other way round), and never     *)
(* touched afterwards until it is obtained again.                                                 *)
EXTENDS Naturals, Sequences, TLC, Json, IOUtils
CONSTANT MaxObj
VARIABLES cnt, alive, heap, l
TraceLog == ndJsonDeserialize(IOEnv.TRACE)
N == Len(TraceLog)
Objs == 1..MaxObj
Init == cnt = [o \in Objs |-> 0] /\ alive = [o \in Objs |-> FALSE] /\ heap = [o \in Objs |-> FALSE] /\ l = 1 /\ TLCSet(1, 0)
Step(ln) ==
   CASE ln.e = "Obtain"  -> ~alive[ln.o] /\ cnt[ln.o] = 0 /\ alive' = [alive EXCEPT ![ln.o] = TRUE] /\ heap' = [heap EXCEPT ![ln.o] = FALSE] /\ UNCHANGED cnt
     [] ln.e = "Alloc"   -> ~alive[ln.o] /\ cnt[ln.o] = 0 /\ alive' = [alive EXCEPT ![ln.o] = TRUE] /\ heap' = [heap EXCEPT ![ln.o] = TRUE] /\ UNCHANGED cnt     \* new T(*pooledObject): a heap copy
     [] ln.e = "Inc"     -> alive[ln.o] /\ cnt' = [cnt EXCEPT ![ln.o] = @ + 1] /\ UNCHANGED <<alive, heap>>
     [] ln.e = "Dec"     -> alive[ln.o] /\ cnt[ln.o] > 0 /\ cnt' = [cnt EXCEPT ![ln.o] = @ - 1] /\ UNCHANGED <<alive, heap>>
     [] ln.e = "Recycle" -> alive[ln.o] /\ ~heap[ln.o] /\ cnt[ln.o] = 0 /\ alive' = [alive EXCEPT ![ln.o] = FALSE] /\ UNCHANGED <<cnt, heap>>       \* back to its pool
     [] ln.e = "Delete"  -> alive[ln.o] /\ heap[ln.o] /\ cnt[ln.o] = 0 /\ alive' = [alive EXCEPT ![ln.o] = FALSE] /\ UNCHANGED <<cnt, heap>>        \* a heap object is deleted, never pooled
     [] ln.e = "Reset"   -> (\A o \in Objs : ~alive[o] /\ cnt[o] = 0) /\ UNCHANGED <<cnt, alive, heap>>
     [] OTHER -> FALSE
Next == l <= N /\ Step(TraceLog[l]) /\ l' = l + 1
Spec == Init /\ [][Next]_<<cnt, alive, heap, l>>
NotAccepted == l <= N
Track == TLCSet(1, IF TLCGet(1) > l THEN TLCGet(1) ELSE l)
Report == PrintT(<<"maxline", TLCGet(1), "of", N>>)
=============================================================================
