SPECIFICATION Spec
CONSTANTS
  N = 3
  MaxPool = 2
  MaxLive = 6
  MaxSlabs = 4
  RECORD = FALSE
INVARIANTS CurExact NodesPartition HeldExact NoLiveInDeleted FreeFirst Bounded
