SPECIFICATION Spec
CONSTANTS
  MaxObj = 80
INVARIANTS NotAccepted
CONSTRAINT Track
POSTCONDITION Report
