SPECIFICATION Spec
CONSTANTS
  MaxObj = 40
INVARIANTS NotAccepted
CONSTRAINT Track
POSTCONDITION Report
