SPECIFICATION Spec
CONSTANTS
  N = 2
  MaxPool = 1
  MaxLive = 4
  MaxSlabs = 4
  RECORD = FALSE
INVARIANTS CurExact NodesPartition HeldExact NoLiveInDeleted FreeFirst Bounded
