-------------------------------- MODULE PoolImpl --------------------------------
(***************************************************************************)
(* util/ObjectPool.h as coded: a list of slabs of N object nodes each, a    *)
(* LIFO free list per slab, _curPoolSize / _maxPoolSize bookkeeping, the    *)
(* rules that move slabs inside the list and delete them.  One action =     *)
(* one public call (ObtainObject / ReleaseObject / Drain), which is one     *)
(* critical section of the pool's mutex.  An object is <<slab id, index>>.  *)
(* The property (C10, pool part) is at the bottom.                          *)
(***************************************************************************)
EXTENDS Naturals, Sequences, FiniteSets, TLC
CONSTANTS N,        \* NUM_OBJECTS_PER_SLAB
          MaxPool,  \* _maxPoolSize
          MaxLive,  \* bound on the number of objects the user holds (generation bound)
          MaxSlabs, \* bound on slab ids ever created (generation bound)
          RECORD
VARIABLES slabs,    \* Seq of [id, free (Seq of indices, head = next to hand out), used (set of indices)]
          cur,      \* _curPoolSize
          nextId,   \* id of the next slab to be created
          held,     \* set of objects the user holds (ghost = what the code handed out and did not get back)
          deleted,  \* set of slab ids deleted so far (ghost)
          last
vars == <<slabs, cur, nextId, held, deleted, last>>

Init == slabs = <<>> /\ cur = 0 /\ nextId = 1 /\ held = {} /\ deleted = {} /\ last = [a |-> "Init"]

RECURSIVE Desc(_)
Desc(k) == IF k = 0 THEN <<>> ELSE <<k - 1>> \o Desc(k - 1)      \* <<N-1, ..., 0>>: InitializeObjectNode pushes 0..N-1, so N-1 comes out first
Full(s) == s.free = <<>>
Unused(s) == s.used = {}
Snap(ss) == [i \in 1..Len(ss) |-> <<ss[i].id, Cardinality(ss[i].used), Len(ss[i].free)>>]
Log(a, rec) == last' = IF RECORD THEN [a |-> a] @@ rec ELSE last
RemoveAt(ss, i) == SubSeq(ss, 1, i - 1) \o SubSeq(ss, i + 1, Len(ss))
IndexOfSlab(ss, id) == CHOOSE i \in 1..Len(ss) : ss[i].id = id

Obtain ==
    /\ Cardinality(held) < MaxLive
    /\ IF slabs # <<>> /\ ~Full(slabs[1])
       THEN LET s == slabs[1]  idx == Head(s.free)
                s2 == [s EXCEPT !.free = Tail(@), !.used = @ \cup {idx}]
                ss == IF Full(s2) /\ Len(slabs) > 1 THEN Tail(slabs) \o <<s2>> ELSE <<s2>> \o Tail(slabs)     \* a slab that became full moves to the end
            IN /\ slabs' = ss /\ cur' = cur - 1 /\ held' = held \cup {<<s.id, idx>>} /\ UNCHANGED <<nextId, deleted>>
               /\ Log("Obtain", [slab |-> s.id, idx |-> idx, newslab |-> FALSE, cur |-> cur - 1, snap |-> Snap(ss)])
       ELSE /\ nextId <= MaxSlabs
            /\ LET s2 == [id |-> nextId, free |-> Tail(Desc(N)), used |-> {N - 1}]
                   ss == IF ~Full(s2) THEN <<s2>> \o slabs ELSE slabs \o <<s2>>
               IN /\ slabs' = ss /\ cur' = cur + N - 1 /\ nextId' = nextId + 1 /\ held' = held \cup {<<nextId, N - 1>>} /\ UNCHANGED deleted
                  /\ Log("Obtain", [slab |-> nextId, idx |-> N - 1, newslab |-> TRUE, cur |-> cur + N - 1, snap |-> Snap(ss)])

Release(o) ==
    /\ o \in held
    /\ LET i == IndexOfSlab(slabs, o[1])  s == slabs[i]
           s2 == [s EXCEPT !.free = <<o[2]>> \o @, !.used = @ \ {o[2]}]
           c2 == cur + 1
       IN IF c2 > MaxPool + N /\ Unused(s2)
          THEN /\ slabs' = RemoveAt(slabs, i) /\ cur' = c2 - N /\ deleted' = deleted \cup {s.id}
               /\ Log("Release", [slab |-> o[1], idx |-> o[2], slabdeleted |-> TRUE, cur |-> c2 - N, snap |-> Snap(RemoveAt(slabs, i))])
          ELSE LET ss == IF i # 1 THEN <<s2>> \o RemoveAt(slabs, i) ELSE <<s2>> \o Tail(slabs)        \* a slab that got a free node moves to the front
               IN /\ slabs' = ss /\ cur' = c2 /\ UNCHANGED deleted
                  /\ Log("Release", [slab |-> o[1], idx |-> o[2], slabdeleted |-> FALSE, cur |-> c2, snap |-> Snap(ss)])
    /\ held' = held \ {o} /\ UNCHANGED nextId

Drain ==
    /\ \E i \in 1..Len(slabs) : Unused(slabs[i])
    /\ LET keep == SelectSeq(slabs, LAMBDA s : ~Unused(s))
           gone == {slabs[i].id : i \in {j \in 1..Len(slabs) : Unused(slabs[j])}}
       IN /\ slabs' = keep /\ cur' = cur - N * Cardinality(gone) /\ deleted' = deleted \cup gone
          /\ Log("Drain", [drained |-> N * Cardinality(gone), cur |-> cur - N * Cardinality(gone), snap |-> Snap(keep)])
    /\ UNCHANGED <<nextId, held>>

Next == Obtain \/ (\E o \in held : Release(o)) \/ Drain
Spec == Init /\ [][Next]_vars

-------------------------------------------------------------------------------
RECURSIVE SumFree(_)
SumFree(ss) == IF ss = <<>> THEN 0 ELSE Len(Head(ss).free) + SumFree(Tail(ss))
\* _curPoolSize is exactly the number of free nodes
CurExact == cur = SumFree(slabs)
\* every node of every slab is either free or in use, never both, never twice in the free list
NodesPartition == \A i \in 1..Len(slabs) : LET s == slabs[i] IN
                     /\ s.used \cap {s.free[k] : k \in 1..Len(s.free)} = {}
                     /\ Cardinality(s.used) + Len(s.free) = N
                     /\ \A a, b \in 1..Len(s.free) : a # b => s.free[a] # s.free[b]
\* an object is held by one owner at a time: what the user holds is exactly what the slabs mark as in use
HeldExact == held = UNION {{<<slabs[i].id, x>> : x \in slabs[i].used} : i \in 1..Len(slabs)}
\* a slab is deleted only when none of its objects is in use
NoLiveInDeleted == \A o \in held : o[1] \notin deleted
\* slabs with free nodes come before full slabs (that is what makes Obtain O(1))
FreeFirst == \A i, j \in 1..Len(slabs) : (i < j /\ Full(slabs[i])) => Full(slabs[j])
\* the pool does not hoard: never more than MaxPool + 2N spare nodes
Bounded == cur <= MaxPool + 2 * N
=============================================================================
