------------------------------- MODULE PulseImpl -------------------------------
(***************************************************************************)
(* util/PulseNode.cpp as coded, operator by operator:                       *)
(*   ReschedulePulseChild = Resched (Unlink, InsertSched with the tail      *)
(*   shortcut and the O(N) walk, Prepend, upward propagation of NEEDSRECALC)*)
(*   InvalidatePulseTime = Inval, PutPulseChild = Put, RemovePulseChild =   *)
(*   Remove, ClearPulseChildren = ClearAll, ~PulseNode = Destroy;           *)
(*   GetPulseTimeAux and PulseAux, which are recursive and call back into   *)
(*   user code, are an explicit stack machine (Micro): frames G (pc pass =  *)
(*   the bounded re-ask loop, needy = the while(firstNeedy) loop, fin = the *)
(*   aggregate-time update and re-filing), P (start, loop = the while loop  *)
(*   over due scheduled children, fin = the move to NEEDSRECALC) and R =    *)
(*   ReflectServer's loop under a frozen clock: repeat {recalculate         *)
(*   (PrepareToWaitForEvents); CallPulseAux (HandleEvents)} until the time  *)
(*   reported is later than the clock.                                      *)
(* Every node has: _parent par, _myScheduledTimeValid valid, _myScheduledTime*)
(* sched, _aggregatePulseTime agg, _curList cur, _prevSibling prv,          *)
(* _nextSibling nxt, _firstChild[] first, _lastChild[] lastc.               *)
(*                                                                          *)
(* A step is: one public call between server cycles (TopOp); the start of a *)
(* cycle (CycleStart); or one CALLBACK (CB): GetPulseTime ("ask") or Pulse  *)
(* ("pulse") of a node, in which the environment chooses what the node      *)
(* answers / re-arms itself to and one nested public call that RE-ENTERS    *)
(* the node code while GetPulseTimeAux / PulseAux frames are on the stack   *)
(* (invalidate self / other, detach self / own child, attach a detached     *)
(* node, clear own children).  After the callback the machine runs to the   *)
(* next callback or to the end of the cycle.  All invariants are therefore  *)
(* evaluated inside every callback too.                                     *)
(*                                                                          *)
(* The property is PulseAbs; `Refines` says that the abstract acceptor      *)
(* accepts the events of every step and that the abstraction commutes.      *)
(***************************************************************************)
EXTENDS Integers, Sequences, FiniteSets, TLC, Json

CONSTANTS N, MaxT, NEVER,
          MaxNested,     \* nested operations per cycle
          NestedKinds,   \* kinds of operation a callback may perform
          TopKinds,      \* kinds of operation between cycles
          Mut,           \* "" = the code as it is; otherwise a deliberately wrong variant (shows that the invariants can fail):
                         \*   F20 (no re-ask loop: Refines), due_lt (Terminates), tail_first (WellFormed, 4 nodes), walk_off (NoCrash),
                         \*   rm_noresched (AggOK), inval_noprop (NeedyChain)
          RECORD,        \* TRUE: keep `last` (behaviour generation from a state-graph dump, tools/pathcover.py)
          EMIT           \* TRUE: print every transition as  %%T ## <JSON of the source state> ## <JSON of the step record>  (the record holds the
                         \*       target state): behaviour generation without `last` in the state - an order of magnitude fewer transitions for TLC

VARIABLES alive, par, valid, sched, agg, cur, prv, nxt, first, lastc, clock,
          stk,           \* the call stack inside a cycle (<<>> between cycles)
          pend,          \* the callback the code is about to make
          min,           \* GetPulseTimeAux's by-reference running minimum
          want,          \* what a node pulsed in this cycle re-armed itself to (FREE: it answers anything)
          nest,          \* nested operations performed in this cycle
          aph,           \* ghost: the phase component of the abstract state
          g,             \* ghost: verdicts computed inside the last step
          last           \* the last step: kind, events expected, projected state

vars == <<alive, par, valid, sched, agg, cur, prv, nxt, first, lastc, clock, stk, pend, min, want, nest, aph, g, last>>

Nodes == 0..(N-1)
Root  == 0
NONE  == -1
Times == 0..MaxT
TimesN == Times \cup {NEVER}
SCHED == 0   UNSCHED == 1   NEEDY == 2      \* LINKED_LIST_SCHEDULED, _UNSCHEDULED, _NEEDSRECALC
Lists == 0..2
MaxRounds == 2 * N + 2 * MaxNested + 2
Fuel == 40 * N + 40
FREE == -2
PassMax == IF Mut = "F20" THEN 1 ELSE 8
Min2(a, b) == IF a <= b THEN a ELSE b

IdlePh == [k |-> "idle", snap |-> {}, done |-> {}, dirty |-> FALSE, rep |-> NONE, nest |-> 0]
A == INSTANCE PulseAbs WITH NestedMax <- MaxNested, req <- sched, ph <- IdlePh

AbsOf(s, ph) == [alive |-> s.alive, par |-> s.par, valid |-> s.valid, req |-> s.sched, clock |-> s.clock, ph |-> ph]

------------------------------------------------------------------------------
(* list well-formedness *)
RECURSIVE Chain(_, _, _)
Chain(s, c, k) == IF c = NONE \/ k = 0 THEN <<>> ELSE <<c>> \o Chain(s, s.nxt[c], k - 1)     \* the list starting at c
ListOf(s, p, l) == Chain(s, s.first[p][l], N + 1)
Range(q) == {q[i] : i \in 1..Len(q)}

WF(s) ==
    /\ \A p \in Nodes, l \in Lists :
          LET q == ListOf(s, p, l) IN
          /\ Len(q) <= N /\ Cardinality(Range(q)) = Len(q)                              \* no cycle, no repetition
          /\ (q = <<>>) = (s.first[p][l] = NONE) /\ (s.first[p][l] = NONE) = (s.lastc[p][l] = NONE)
          /\ (q # <<>> => s.lastc[p][l] = q[Len(q)])
          /\ \A i \in 1..Len(q) : /\ s.par[q[i]] = p /\ s.cur[q[i]] = l                  \* members are children filed under l
                                   /\ s.prv[q[i]] = (IF i = 1 THEN NONE ELSE q[i - 1])    \* back pointers
          /\ (l = SCHED => \A i \in 1..(Len(q) - 1) : s.agg[q[i]] <= s.agg[q[i + 1]])    \* the scheduled list is sorted
          /\ (p \notin s.alive => q = <<>>)
    /\ \A c \in Nodes :
          IF s.par[c] = NONE THEN s.cur[c] = -1 /\ s.prv[c] = NONE /\ s.nxt[c] = NONE
          ELSE /\ c \in s.alive /\ s.par[c] \in s.alive /\ s.cur[c] \in Lists
               /\ c \in Range(ListOf(s, s.par[c], s.cur[c]))                             \* each child in exactly one list (the one _curList names)
    /\ \A c \in Nodes : (s.cur[c] = SCHED => s.agg[c] # NEVER) /\ (s.cur[c] = UNSCHED => s.agg[c] = NEVER)

------------------------------------------------------------------------------
(* ReschedulePulseChild *)
Unlink(s, p, c, cl) ==
    LET pv == s.prv[c]  nx == s.nxt[c]
        s1 == IF pv # NONE THEN [s EXCEPT !.nxt[pv] = nx] ELSE s
        s2 == IF nx # NONE THEN [s1 EXCEPT !.prv[nx] = pv] ELSE s1
        s3 == IF c = s2.first[p][cl] THEN [s2 EXCEPT !.first[p][cl] = nx] ELSE s2
        s4 == IF c = s3.lastc[p][cl] THEN [s3 EXCEPT !.lastc[p][cl] = pv] ELSE s3
    IN [s4 EXCEPT !.prv[c] = NONE, !.nxt[c] = NONE]

Prepend(s, p, c, l) ==
    LET f == s.first[p][l] IN
    IF f # NONE THEN [s EXCEPT !.nxt[c] = f, !.prv[f] = c, !.first[p][l] = c]
    ELSE [s EXCEPT !.first[p][l] = c, !.lastc[p][l] = c]

RECURSIVE WalkTo(_, _, _, _)
WalkTo(s, q, c, k) == IF q = NONE \/ k = 0 THEN NONE
                      ELSE IF (IF Mut = "walk_off" THEN s.agg[q] <= s.agg[c] ELSE s.agg[q] < s.agg[c]) THEN WalkTo(s, s.nxt[q], c, k - 1) ELSE q

InsertSched(s, p, c) ==
    LET f == s.first[p][SCHED] IN
    IF f = NONE THEN [s EXCEPT !.first[p][SCHED] = c, !.lastc[p][SCHED] = c]
    ELSE LET l   == s.lastc[p][SCHED]
             ref == IF Mut = "tail_first" THEN f ELSE l
         IN IF l # NONE /\ (IF Mut = "walk_off" THEN s.agg[c] > s.agg[ref] ELSE s.agg[c] >= s.agg[ref])
            THEN [s EXCEPT !.prv[c] = l, !.nxt[l] = c, !.lastc[p][SCHED] = c]             \* shortcut: append to the tail
            ELSE LET q == WalkTo(s, f, c, N + 1) IN
                 IF q = NONE THEN [s EXCEPT !.crash = TRUE]                               \* the walk would run off the list (NULL dereference)
                 ELSE LET pq == s.prv[q]
                          s1 == [s EXCEPT !.nxt[c] = q, !.prv[c] = pq]
                          s2 == IF pq # NONE THEN [s1 EXCEPT !.nxt[pq] = c] ELSE [s1 EXCEPT !.first[p][SCHED] = c]
                      IN [s2 EXCEPT !.prv[q] = c]

RECURSIVE Resched(_, _, _, _)
Resched(s, p, c, wl) ==
    LET cl == s.cur[c] IN
    IF ~(wl # cl \/ cl = SCHED) THEN s
    ELSE LET s1 == IF cl >= 0 THEN Unlink(s, p, c, cl) ELSE s
             s2 == [s1 EXCEPT !.cur[c] = wl]
         IN CASE wl = SCHED   -> InsertSched(s2, p, c)
              [] wl = NEEDY   -> LET s3 == IF s2.par[p] # NONE /\ Mut # "inval_noprop" THEN Resched(s2, s2.par[p], p, NEEDY) ELSE s2   \* "if our child is rescheduled that reschedules us too"
                                 IN Prepend(s3, p, c, NEEDY)
              [] wl = UNSCHED -> Prepend(s2, p, c, UNSCHED)
              [] OTHER        -> s2

------------------------------------------------------------------------------
(* the public calls *)
Inval(s, n, clear) ==
    LET s1 == IF clear THEN [s EXCEPT !.sched[n] = NEVER] ELSE s IN
    IF s1.valid[n]
    THEN LET s2 == [s1 EXCEPT !.valid[n] = FALSE] IN IF s2.par[n] # NONE THEN Resched(s2, s2.par[n], n, NEEDY) ELSE s2
    ELSE s1

Remove(s, p, c) ==
    IF s.par[c] # p THEN s
    ELSE LET doR == (c = s.first[p][SCHED])
             s1  == Resched(s, p, c, -1)
             s2  == [s1 EXCEPT !.par[c] = NONE, !.valid[c] = FALSE]
         IN IF doR /\ s2.par[p] # NONE /\ Mut # "rm_noresched" THEN Resched(s2, s2.par[p], p, NEEDY) ELSE s2

Put(s, p, c) ==
    LET s1 == IF s.par[c] # NONE THEN Remove(s, s.par[c], c) ELSE s
        s2 == [s1 EXCEPT !.par[c] = p]
    IN Resched(s2, p, c, NEEDY)

RECURSIVE ClearAll(_, _, _)
ClearAll(s, n, i) ==
    IF i > 2 THEN s
    ELSE IF s.first[n][i] = NONE THEN ClearAll(s, n, i + 1)
    ELSE IF s.fuel <= 0 THEN [s EXCEPT !.div = TRUE]
    ELSE ClearAll(Remove([s EXCEPT !.fuel = @ - 1], n, s.first[n][i]), n, i)

Destroy(s, n) ==
    LET s1 == IF s.par[n] # NONE THEN Remove(s, s.par[n], n) ELSE s
        s2 == ClearAll(s1, n, 0)
    IN [s2 EXCEPT !.alive = @ \ {n}, !.valid[n] = FALSE, !.sched[n] = NEVER, !.agg[n] = NEVER]   \* a later create is a fresh object

ImplOp(s, o) ==
    CASE o.op = "attach"  -> Put(s, o.a, o.b)
      [] o.op = "remove"  -> Remove(s, o.a, o.b)
      [] o.op = "inval"   -> Inval(s, o.a, o.t = 1)
      [] o.op = "destroy" -> Destroy(s, o.a)
      [] o.op = "create"  -> [s EXCEPT !.alive = @ \cup {o.a}]
      [] o.op = "clear"   -> ClearAll(s, o.a, 0)
      [] o.op = "tick"    -> [s EXCEPT !.clock = o.t]
      [] OTHER -> s

------------------------------------------------------------------------------
(* the operations the environment may choose from *)
OpRec(k, a, b, t) == [op |-> k, a |-> a, b |-> b, t |-> t]
TopOps == {OpRec(k, a, b, 0) : k \in {"attach", "remove"} \cap TopKinds, a \in Nodes, b \in Nodes}
     \cup {OpRec("attach", Root, b, 0) : b \in IF "attach0" \in TopKinds THEN Nodes ELSE {}}      \* stars only (all nodes children of the root)
     \cup {OpRec("inval", a, 0, c) : a \in IF "inval" \in TopKinds THEN Nodes ELSE {}, c \in {0, 1}}
     \cup {OpRec(k, a, 0, 0) : k \in {"destroy", "create", "clear"} \cap TopKinds, a \in Nodes}
     \cup {OpRec("tick", 0, 0, t) : t \in IF "tick" \in TopKinds THEN Times ELSE {}}
NestedOps == {OpRec(k, a, b, 0) : k \in {"attach", "remove"} \cap NestedKinds, a \in Nodes, b \in Nodes}
     \cup {OpRec("inval", a, 0, c) : a \in IF "inval" \in NestedKinds THEN Nodes ELSE {}, c \in {0, 1}}
     \cup {OpRec("clear", a, 0, 0) : a \in IF "clear" \in NestedKinds THEN Nodes ELSE {}}
------------------------------------------------------------------------------
(* GetPulseTimeAux / PulseAux / the server loop as a stack machine *)
GFinish(s1, n) ==
    LET old == s1.agg[n]
        fs  == s1.first[n][SCHED]
        na  == Min2(s1.sched[n], IF fs = NONE THEN NEVER ELSE s1.agg[fs])
        s2  == [s1 EXCEPT !.agg[n] = na]
        s3  == IF s2.par[n] # NONE /\ (s2.cur[n] = NEEDY \/ na # old)
               THEN Resched(s2, s2.par[n], n, IF na = NEVER THEN UNSCHED ELSE SCHED) ELSE s2
    IN [s3 EXCEPT !.min = Min2(@, na)]
PFinish(s2, n) == IF s2.par[n] # NONE THEN Resched(s2, s2.par[n], n, NEEDY) ELSE s2

Fr(f, n, pc, x) == [f |-> f, n |-> n, pc |-> pc, x |-> x]
TopF(s)       == s.stk[Len(s.stk)]
SetTop(s, fr) == [s EXCEPT !.stk[Len(s.stk)] = fr]
Pop(s)        == [s EXCEPT !.stk = SubSeq(@, 1, Len(@) - 1)]
Push(s, fr)   == [s EXCEPT !.stk = Append(@, fr)]
NoPend        == [kind |-> "none", n |-> 0]
Lg(s, e, x)   == [s EXCEPT !.log = Append(@, A!Ev(e, 0, 0, x, 0, A!NoOp))]
\* PulseNodeManager::CallPulseAux
CallP(s)      == IF s.clock >= s.agg[Root] THEN Push(s, Fr("P", Root, "start", 0)) ELSE s

Micro(s) ==
    LET t == TopF(s)
        n == t.n
    IN
    CASE t.f = "R" ->       \* n = number of the round
        (CASE t.pc = "begin"  -> Push(SetTop([Lg(s, "recalc", 0) EXCEPT !.min = NEVER], [t EXCEPT !.pc = "afterG"]), Fr("G", Root, "pass", 0))
           [] t.pc = "afterG" -> LET s1 == [Lg(s, "recalcEnd", s.min) EXCEPT !.min = NEVER] IN
                                 IF s.min > s.clock THEN CallP(SetTop(s1, [t EXCEPT !.pc = "endP"]))              \* nothing due reported: last HandleEvents, then sleep
                                 ELSE IF n >= MaxRounds THEN [s1 EXCEPT !.div = TRUE, !.stk = <<>>]
                                 ELSE CallP(SetTop(Lg(s1, "sweep", 0), [t EXCEPT !.pc = "afterP"]))
           [] t.pc = "afterP" -> SetTop(Lg(s, "sweepEnd", 0), [t EXCEPT !.pc = "begin", !.n = @ + 1])
           [] t.pc = "endP"   -> Pop(Lg(s, "cycleEnd", 0)))
      [] t.f = "G" ->       \* GetPulseTimeAux of node n; x = pass
        (CASE t.pc = "pass"   -> IF ~(t.x = 0 \/ (~s.valid[n] /\ t.x < PassMax)) THEN SetTop(s, [t EXCEPT !.pc = "fin"])
                                 ELSE IF ~s.valid[n] THEN [SetTop(s, [t EXCEPT !.pc = "needy"]) EXCEPT !.pend = [kind |-> "ask", n |-> n]]
                                 ELSE SetTop(s, [t EXCEPT !.pc = "needy"])
           [] t.pc = "needy"  -> LET f == s.first[n][NEEDY] IN
                                 IF f = NONE THEN SetTop(s, [t EXCEPT !.pc = "pass", !.x = @ + 1])
                                 ELSE Push(s, Fr("G", f, "pass", 0))           \* while(firstNeedy) firstNeedy->GetPulseTimeAux(now, min)
           [] t.pc = "fin"    -> Pop(GFinish(s, n)))
      [] t.f = "P" ->       \* PulseAux of node n
        (CASE t.pc = "start"  -> LET due == IF Mut = "due_lt" THEN s.clock > s.sched[n] ELSE s.clock >= s.sched[n] IN
                                 IF s.valid[n] /\ due THEN [SetTop(s, [t EXCEPT !.pc = "loop"]) EXCEPT !.pend = [kind |-> "pulse", n |-> n]]
                                 ELSE SetTop(s, [t EXCEPT !.pc = "loop"])
           [] t.pc = "loop"   -> LET p == s.first[n][SCHED] IN
                                 IF p = NONE \/ ~(s.clock >= s.agg[p]) THEN SetTop(s, [t EXCEPT !.pc = "fin"])
                                 ELSE Push(s, Fr("P", p, "start", 0))
           [] t.pc = "fin"    -> Pop(PFinish(s, n)))

\* run to the next callback or to the end of the cycle
RECURSIVE Go(_, _)
Go(s, k) == IF s.pend.kind # "none" \/ s.stk = <<>> THEN s
            ELSE IF k = 0 THEN [s EXCEPT !.div = TRUE, !.stk = <<>>]
            ELSE Go(Micro(s), k - 1)

------------------------------------------------------------------------------
Cur == [alive |-> alive, par |-> par, valid |-> valid, sched |-> sched, agg |-> agg, cur |-> cur, prv |-> prv, nxt |-> nxt,
        first |-> first, lastc |-> lastc, clock |-> clock, stk |-> stk, pend |-> pend, min |-> min, want |-> want, nest |-> nest,
        \* per-step scratch
        log |-> <<>>, fuel |-> Fuel, div |-> FALSE, crash |-> FALSE]

G0 == [crash |-> FALSE, div |-> FALSE, absok |-> TRUE, at |-> 0]
AllFree == [n \in Nodes |-> FREE]

None3 == [l \in Lists |-> NONE]
Init == /\ alive = Nodes /\ par = [n \in Nodes |-> NONE] /\ valid = [n \in Nodes |-> FALSE]
        /\ sched = [n \in Nodes |-> NEVER] /\ agg = [n \in Nodes |-> NEVER] /\ cur = [n \in Nodes |-> -1]
        /\ prv = [n \in Nodes |-> NONE] /\ nxt = [n \in Nodes |-> NONE]
        /\ first = [n \in Nodes |-> None3] /\ lastc = [n \in Nodes |-> None3]
        /\ clock = 0 /\ stk = <<>> /\ pend = NoPend /\ min = NEVER /\ want = AllFree /\ nest = 0 /\ aph = IdlePh
        /\ g = G0 /\ last = [k |-> "init"]

Seq0(f) == [i \in 1..N |-> f[i - 1]]
Proj(s) == [par |-> Seq0(s.par), valid |-> Seq0(s.valid), sched |-> Seq0(s.sched), agg |-> Seq0(s.agg), cur |-> Seq0(s.cur),
            ls |-> [i \in 1..N |-> <<ListOf(s, i - 1, 0), ListOf(s, i - 1, 1), ListOf(s, i - 1, 2)>>]]

\* the rest of what the code's behaviour depends on: who is alive, the clock, the call stack, the pending callback
Ctl(s) == LET idle == s.stk = <<>> IN
          [alive |-> [i \in 1..N |-> (i - 1) \in s.alive], clock |-> s.clock,
           stk |-> [i \in 1..Len(s.stk) |-> <<s.stk[i].f, s.stk[i].n, s.stk[i].pc, s.stk[i].x>>],
           pk |-> s.pend.kind, pn |-> s.pend.n, min |-> IF idle THEN NEVER ELSE s.min,
           want |-> IF idle THEN Seq0(AllFree) ELSE Seq0(s.want), nest |-> IF idle THEN 0 ELSE s.nest]
\* the step record: kind (op | cycle | cb), the events the code must produce, whether the cycle is over, the state it must be in
StepRec(s, kind) == [k |-> kind, evs |-> s.log, idle |-> s.stk = <<>>, st |-> Proj(s), c |-> Ctl(s)]

\* s = the state the code reaches; s.log = the events of the step
Apply(s, kind) ==
    LET r    == A!Run(AbsOf(Cur, aph), s.log, 1)
        idle == s.stk = <<>>
    IN
    /\ alive' = s.alive /\ par' = s.par /\ valid' = s.valid /\ sched' = s.sched /\ agg' = s.agg /\ cur' = s.cur
    /\ prv' = s.prv /\ nxt' = s.nxt /\ first' = s.first /\ lastc' = s.lastc /\ clock' = s.clock
    /\ stk' = s.stk /\ pend' = s.pend /\ min' = (IF idle THEN NEVER ELSE s.min)
    /\ want' = (IF idle THEN AllFree ELSE s.want) /\ nest' = (IF idle THEN 0 ELSE s.nest)
    /\ aph' = (IF r.ok THEN r.s.ph ELSE aph)
    /\ g' = [crash |-> s.crash, div |-> s.div,
             absok |-> r.ok /\ r.s = AbsOf(s, r.s.ph) /\ (idle = (r.s.ph.k = "idle")),    \* the acceptor accepts, and abstraction commutes
             at |-> IF r.ok THEN 0 ELSE r.at]
    /\ last' = IF RECORD THEN StepRec(s, kind) ELSE last
    /\ (EMIT => PrintT("%%T ## " \o ToJson(<<Proj(Cur), Ctl(Cur)>>) \o " ## " \o ToJson(StepRec(s, kind))))

TopOp == /\ stk = <<>>
         /\ \E o \in TopOps :
            /\ A!OpOK(AbsOf(Cur, aph), o, NONE)
            /\ Apply(ImplOp([Cur EXCEPT !.log = <<A!Ev("op", 0, 0, 0, 0, o)>>], o), "op")

CycleStart == /\ stk = <<>>
              /\ Apply(Go([Cur EXCEPT !.log = <<A!Ev("cycle", 0, clock, 0, 0, A!NoOp)>>, !.stk = <<Fr("R", 1, "begin", 0)>>], 300), "cycle")

\* the nested public calls node n may make from inside a callback
Nested(s, n) == {A!NoOp} \cup (IF s.nest < MaxNested THEN {o \in NestedOps : A!OpOK(AbsOf(s, aph), o, n)} ELSE {})
Did(s, o) == IF o.op = "none" THEN s ELSE [s EXCEPT !.nest = @ + 1]

\* _myScheduledTimeValid = true; _myScheduledTime = GetPulseTime(PulseArgs(now, _myScheduledTime));
AskCB == /\ pend.kind = "ask"
         /\ LET n  == pend.n
                s1 == [Cur EXCEPT !.valid[n] = TRUE, !.pend = NoPend]
            IN \E ret \in (IF want[n] = FREE THEN TimesN ELSE {want[n]}) : \E o \in Nested(s1, n) :
                  LET s2 == ImplOp(Did([s1 EXCEPT !.log = <<A!Ev("ask", n, clock, sched[n], ret, o)>>], o), o)
                  IN Apply(Go([s2 EXCEPT !.sched[n] = ret], 300), "cb")

\* Pulse(PulseArgs(now, _myScheduledTime)); _myScheduledTimeValid = false;    the node re-arms itself to a later time or never
PulseCB == /\ pend.kind = "pulse"
           /\ LET n  == pend.n
                  s1 == [Cur EXCEPT !.pend = NoPend]
              IN \E ra \in ({NEVER} \cup ({clock + 1} \cap Times)) : \E o \in Nested(s1, n) :
                    LET s2 == ImplOp(Did([s1 EXCEPT !.want[n] = ra, !.log = <<A!Ev("pulse", n, clock, sched[n], ra, o)>>], o), o)
                    IN Apply(Go([s2 EXCEPT !.valid[n] = FALSE], 300), "cb")

Next == TopOp \/ CycleStart \/ AskCB \/ PulseCB
Spec == Init /\ [][Next]_vars
FairSpec == Spec /\ WF_vars(Next)

------------------------------------------------------------------------------
Idle == stk = <<>>
TypeOK == /\ alive \subseteq Nodes /\ Root \in alive /\ par[Root] = NONE
          /\ \A n \in Nodes : sched[n] \in TimesN /\ agg[n] \in TimesN /\ cur[n] \in -1..2
          /\ clock \in Times /\ Len(stk) <= N + 2
\* each child in exactly one list, back pointers consistent, scheduled list sorted - between steps and inside every callback
WellFormed == WF(Cur)
NoCrash    == ~g.crash                 \* the O(N) walk of the sorted insert never runs off the list
Terminates == ~g.div                   \* no loop of the code spins without a callback; a cycle needs a bounded number of rounds
Refines    == g.absok                  \* PulseAbs accepts the events of every step; abstraction commutes
\* between cycles: a node filed as scheduled / unscheduled knows its time (the clause F20 breaks) ...
Filed      == Idle => \A n \in Nodes : cur[n] \in {SCHED, UNSCHED} => valid[n]
\* ... needs-recalculation reaches up to the root ...
NeedyChain == \A n \in Nodes : (cur[n] = NEEDY /\ par[n] # NONE /\ par[par[n]] # NONE) => cur[par[n]] = NEEDY
\* ... and a filed node's aggregate time is the minimum of its own and its scheduled children's
AggOK      == Idle => \A n \in Nodes : cur[n] \in {SCHED, UNSCHED} =>
                 agg[n] = Min2(sched[n], IF first[n][SCHED] = NONE THEN NEVER ELSE agg[first[n][SCHED]])
\* every cycle ends (liveness, under FairSpec)
CycleEnds  == (~Idle) ~> Idle

\* reachability targets (must be VIOLATED)
Reach_ReAsk   == ~(\E i \in 1..Len(stk) : stk[i].f = "G" /\ stk[i].x >= 1 /\ pend.kind = "ask" /\ pend.n = stk[i].n)      \* the re-ask loop is needed
Reach_3Rounds == ~(stk # <<>> /\ stk[1].n >= 3)
Reach_Depth   == ~(Len(stk) >= N + 1)
=============================================================================
