SPECIFICATION Spec
CONSTANTS
  N = 3
  MaxT = 1
  NEVER = 9
  NestedMax = 0
INVARIANTS TypeOK Forest
PROPERTIES SleepSafe
