SPECIFICATION TraceSpec
CONSTANTS
  N = 3
  MaxT = 2
  NEVER = 9
  NestedMax = 0
INVARIANTS NotAccepted TypeOK Forest
CONSTRAINT Track
POSTCONDITION Report
