SPECIFICATION Spec
CONSTANTS
  N = 3
  MaxT = 1
  NEVER = 9
  MaxNested = 1
  NestedKinds = {"remove", "clear"}
  TopKinds = {"attach", "inval", "tick"}
  Mut = ""
  RECORD = FALSE
  EMIT = TRUE
INVARIANTS TypeOK WellFormed NoCrash Terminates Refines Filed NeedyChain AggOK
