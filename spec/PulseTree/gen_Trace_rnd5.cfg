SPECIFICATION TraceSpec
CONSTANTS
  N = 5
  MaxT = 60
  NEVER = 999
  NestedMax = 0
INVARIANTS NotAccepted TypeOK Forest
CONSTRAINT Track
POSTCONDITION Report
