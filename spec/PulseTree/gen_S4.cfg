SPECIFICATION Spec
CONSTANTS
  N = 4
  MaxT = 1
  NEVER = 9
  MaxNested = 0
  NestedKinds = {}
  TopKinds = {"attach0", "remove", "inval", "tick"}
  Mut = ""
  RECORD = FALSE
  EMIT = TRUE
INVARIANTS TypeOK WellFormed NoCrash Terminates Refines Filed NeedyChain AggOK
