SPECIFICATION Spec
CONSTANTS
  N = 3
  MaxT = 1
  NEVER = 9
  MaxNested = 1
  NestedKinds = {"inval"}
  TopKinds = {"attach", "inval", "tick"}
  Mut = "F20"
  RECORD = FALSE
  EMIT = FALSE
INVARIANTS Refines
