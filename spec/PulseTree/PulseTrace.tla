------------------------------ MODULE PulseTrace ------------------------------
(* Trace validation for C20: the event log recorded by harness/pn.cpp from real PulseNode objects (one JSON line per      *)
(* event: public call, callback with arguments / answer / nested call, reported time, ...) is a behaviour of PulseAbs.    *)
(* Every line carries all arguments and results, so validation is linear (one state per line).  Histories are            *)
(* concatenated with {"e":"reset"} lines (all nodes fresh, clock 0).                                                      *)
EXTENDS PulseAbs, IOUtils, Json

VARIABLES l          \* next line of the trace
TraceLog == ndJsonDeserialize(IOEnv.TRACE)
Len_ == Len(TraceLog)

TraceInit == Init /\ l = 1 /\ TLCSet(1, 0)

Line  == /\ l <= Len_ /\ TraceLog[l].e # "reset"
         /\ Do(TraceLog[l])
         /\ l' = l + 1
Reset == /\ l <= Len_ /\ TraceLog[l].e = "reset"
         /\ alive' = Init0.alive /\ par' = Init0.par /\ valid' = Init0.valid /\ req' = Init0.req /\ clock' = 0 /\ ph' = Idle
         /\ l' = l + 1

TraceNext == Line \/ Reset
TraceSpec == TraceInit /\ [][TraceNext]_<<avars, l>>

\* "violated" = the whole trace was explained by the specification
NotAccepted == l <= Len_
\* progress register for diagnosing a rejection (needs -workers 1)
Track  == TLCSet(1, IF TLCGet(1) > l THEN TLCGet(1) ELSE l)
Report == PrintT(<<"maxline", TLCGet(1), "of", Len_>>)
=============================================================================
