SPECIFICATION Spec
CONSTANTS
  N = 3
  MaxT = 2
  NEVER = 9
  MaxNested = 0
  NestedKinds = {}
  TopKinds = {"attach", "remove", "inval", "tick"}
  Mut = ""
  RECORD = FALSE
  EMIT = TRUE
INVARIANTS TypeOK WellFormed NoCrash Terminates Refines Filed NeedyChain AggOK
