SPECIFICATION Spec
CONSTANTS
  N = 2
  MaxT = 1
  NEVER = 9
  MaxNested = 1
  NestedKinds = {"attach", "remove", "inval", "clear"}
  TopKinds = {"attach", "remove", "inval", "destroy", "create", "clear", "tick"}
  Mut = ""
  RECORD = TRUE
  EMIT = FALSE
INVARIANTS TypeOK WellFormed NoCrash Terminates Refines Filed NeedyChain AggOK
