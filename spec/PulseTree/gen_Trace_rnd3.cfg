SPECIFICATION TraceSpec
CONSTANTS
  N = 6
  MaxT = 200
  NEVER = 999
  NestedMax = 0
INVARIANTS NotAccepted TypeOK Forest
CONSTRAINT Track
POSTCONDITION Report
