SPECIFICATION TraceSpec
CONSTANTS
  N = 4
  MaxT = 1
  NEVER = 9
  NestedMax = 0
INVARIANTS NotAccepted TypeOK Forest
CONSTRAINT Track
POSTCONDITION Report
