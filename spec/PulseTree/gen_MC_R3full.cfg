SPECIFICATION Spec
CONSTANTS
  N = 3
  MaxT = 1
  NEVER = 9
  MaxNested = 1
  NestedKinds = {"attach", "remove", "inval", "clear"}
  TopKinds = {"attach", "remove", "inval", "destroy", "create", "clear", "tick"}
  Mut = ""
  RECORD = FALSE
  EMIT = FALSE
INVARIANTS TypeOK WellFormed NoCrash Terminates Refines Filed NeedyChain AggOK
