SPECIFICATION FairSpec
CONSTANTS
  N = 2
  MaxT = 1
  NEVER = 9
  MaxNested = 2
  NestedKinds = {"attach", "remove", "inval", "clear"}
  TopKinds = {"attach", "remove", "inval", "destroy", "create", "clear", "tick"}
  Mut = ""
  RECORD = FALSE
  EMIT = FALSE
INVARIANTS TypeOK WellFormed NoCrash Terminates Refines Filed NeedyChain AggOK
PROPERTIES CycleEnds
