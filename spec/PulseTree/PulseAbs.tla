------------------------------- MODULE PulseAbs -------------------------------
(***************************************************************************)
(* C20, the property: "Pulse callbacks fire for every due node and never    *)
(* before their time", stated over the EVENTS an observer of a tree of      *)
(* util/PulseNode objects can see: the public calls made on the nodes       *)
(* (attach, detach, invalidate, destroy, ...), the two callbacks            *)
(* GetPulseTime ("ask") and Pulse ("pulse") with their arguments, and the   *)
(* time the root reports - during a SERVER CYCLE at a frozen clock t:       *)
(*    repeat { recalculate; if reported <= t : sweep } until reported > t   *)
(* which is ReflectServer's event loop (PrepareToWaitForEvents /            *)
(* HandleEvents).  A callback may perform one nested public call (o).       *)
(*                                                                          *)
(* The module is an ACCEPTOR: Step(s, e) says whether event e is allowed    *)
(* in abstract state s and gives the next state.  It is used three ways:    *)
(*   - as a specification of its own (Spec below: all events, small N);     *)
(*   - PulseImpl (the code's algorithm) folds Step over the events of each  *)
(*     of its steps: refinement;                                            *)
(*   - PulseTrace folds it over event logs recorded from the real code.     *)
(*                                                                          *)
(* The clauses of the property are the guards marked (P1)..(P6).            *)
(***************************************************************************)
EXTENDS Integers, Sequences, FiniteSets, TLC

CONSTANTS N,          \* nodes are 0..N-1, node 0 is the root (the one the manager calls)
          MaxT,       \* times are 0..MaxT
          NEVER,      \* MUSCLE_TIME_NEVER: larger than every time
          NestedMax   \* standalone model checking only: nested operations per cycle

ASSUME NEVER > MaxT

Nodes  == 0..(N-1)
Root   == 0
NONE   == -1
Times  == 0..MaxT
TimesN == Times \cup {NEVER}

MinOf(S) == CHOOSE m \in S : \A x \in S : m <= x

\* an operation: a public call on the nodes (or the clock).  All fields always present (flat JSON).
\*   none | attach a<-b (a.PutPulseChild(b)) | remove (a.RemovePulseChild(b)) | inval a (t=1: clearPrevResult) |
\*   want a t (the node will answer t the next time it is asked; invisible to the library) |
\*   destroy a | create a | clear a (ClearPulseChildren) | tick t (the clock advances to t)
NoOp == [op |-> "none", a |-> 0, b |-> 0, t |-> 0]
\* an event
Ev(e, n, now, x, y, o) == [e |-> e, n |-> n, now |-> now, x |-> x, y |-> y, o |-> o]

Idle == [k |-> "idle", snap |-> {}, done |-> {}, dirty |-> FALSE, rep |-> NONE, nest |-> 0]

Init0 == [alive |-> Nodes, par |-> [n \in Nodes |-> NONE], valid |-> [n \in Nodes |-> FALSE],
          req |-> [n \in Nodes |-> NEVER], clock |-> 0, ph |-> Idle]

RECURSIVE Up(_, _, _)
Up(p, n, k)    == IF n = NONE \/ k = 0 THEN {} ELSE {n} \cup Up(p, p[n], k - 1)   \* n and its ancestors
InSub(s, x, r) == r \in Up(s.par, x, N)                                            \* x is in the subtree rooted at r
Attached(s)    == {n \in s.alive : Root \in Up(s.par, n, N)}
Due(s)         == {n \in Attached(s) : s.valid[n] /\ s.req[n] <= s.clock}
TrueMin(s)     == MinOf({s.req[n] : n \in {m \in Attached(s) : s.valid[m]}} \cup {NEVER})

\* environment assumptions: which calls a test / a callback of node `self` may make (self = NONE: between cycles)
OpOK(s, o, self) ==
    CASE o.op = "none"    -> TRUE
      [] o.op = "attach"  -> /\ o.a \in s.alive /\ o.b \in s.alive /\ o.b # Root /\ ~InSub(s, o.a, o.b)
                             /\ (self # NONE => s.par[o.b] = NONE)                   \* nested: attach a detached node
      [] o.op = "remove"  -> /\ o.a \in s.alive /\ o.b \in s.alive
                             /\ (self # NONE => (s.par[o.b] = o.a /\ (o.b = self \/ o.a = self)))  \* nested: detach self / own child
      [] o.op = "inval"   -> o.a \in s.alive /\ o.t \in {0, 1}
      [] o.op = "want"    -> o.a \in s.alive /\ o.t \in TimesN /\ (self # NONE => o.a = self)
      [] o.op = "destroy" -> self = NONE /\ o.a \in s.alive /\ o.a # Root
      [] o.op = "create"  -> self = NONE /\ o.a \in Nodes \ s.alive
      [] o.op = "clear"   -> o.a \in s.alive /\ (self # NONE => o.a = self)
      [] o.op = "tick"    -> self = NONE /\ o.t \in Times /\ o.t > s.clock
      [] OTHER -> FALSE

\* what the documentation of PulseNode.h says the calls do, as far as the property can see it
OpDo(s, o) ==
    CASE o.op = "attach"  -> [s EXCEPT !.par[o.b] = o.a,
                                       !.valid[o.b] = IF s.par[o.b] # NONE THEN FALSE ELSE @]   \* "removed from that PulseNode's children-list (via RemovePulseChild())"
      [] o.op = "remove"  -> IF s.par[o.b] = o.a THEN [s EXCEPT !.par[o.b] = NONE, !.valid[o.b] = FALSE] ELSE s   \* "not currently a child: no-op"
      [] o.op = "inval"   -> [s EXCEPT !.valid[o.a] = FALSE, !.req[o.a] = IF o.t = 1 THEN NEVER ELSE @]
      [] o.op = "destroy" -> [s EXCEPT !.alive = @ \ {o.a},
                                       !.par   = [n \in Nodes |-> IF n = o.a \/ s.par[n] = o.a THEN NONE ELSE s.par[n]],
                                       !.valid = [n \in Nodes |-> IF n = o.a \/ s.par[n] = o.a THEN FALSE ELSE s.valid[n]],
                                       !.req[o.a] = NEVER]
      [] o.op = "create"  -> [s EXCEPT !.alive = @ \cup {o.a}]
      [] o.op = "clear"   -> [s EXCEPT !.par   = [n \in Nodes |-> IF s.par[n] = o.a THEN NONE ELSE s.par[n]],
                                       !.valid = [n \in Nodes |-> IF s.par[n] = o.a THEN FALSE ELSE s.valid[n]]]
      [] o.op = "tick"    -> [s EXCEPT !.clock = o.t]
      [] OTHER -> s        \* none, want

R(ok, s) == [ok |-> ok, s |-> s]

\* Which nodes may be called back during a recalculation / sweep: the attached ones, of course.  PulseNode.h is silent about nodes
\* that a callback detaches while the sweep is under way; the code goes on with the subtree it is working on.  Either: a node is
\* also allowed if it, or one of its ancestors, was attached at some moment of this recalculation / sweep or has itself been
\* called back in it (s.ph.snap).
Reached(s, n) == n \in Attached(s) \/ (Up(s.par, n, N) \cap s.ph.snap) # {}

Step(s, e) ==
    LET ph == s.ph IN
    CASE e.e = "op" ->        R(ph.k = "idle" /\ OpOK(s, e.o, NONE), OpDo(s, e.o))
      [] e.e = "cycle" ->     R(ph.k = "idle" /\ e.now = s.clock, [s EXCEPT !.ph = [Idle EXCEPT !.k = "cycle"]])
      [] e.e = "recalc" ->    R(ph.k = "cycle" /\ ph.rep = NONE,
                                [s EXCEPT !.ph = [ph EXCEPT !.k = "recalc", !.snap = Attached(s), !.dirty = FALSE]])
      \* GetPulseTime(now, prev) is called on node n and returns y; during the call the node performs o
      [] e.e = "ask" ->
            LET n  == e.n
                s1 == [s EXCEPT !.valid[n] = TRUE]
            IN R(/\ ph.k = "recalc" /\ n \in s.alive
                 /\ ~s.valid[n]                                   \* (P5) asked only if its time is not known
                 /\ Reached(s, n)                                 \*      Either: see Reached
                 /\ e.now = s.clock /\ e.x = s.req[n]             \* (P4) arguments: (now, what it answered last / NEVER after a clearing invalidate)
                 /\ e.y \in TimesN /\ OpOK(s1, e.o, n),
                 LET s2 == OpDo(s1, e.o) IN
                 [s2 EXCEPT !.req[n] = e.y, !.ph.dirty = @ \/ e.o.op \notin {"none", "want"}, !.ph.nest = @ + (IF e.o.op = "none" THEN 0 ELSE 1),
                            !.ph.snap = @ \cup Attached(s2) \cup {n}])
      \* the recalculation returns x to the manager
      [] e.e = "recalcEnd" ->
            R(/\ ph.k = "recalc"
              /\ e.x <= TrueMin(s)                                \* (P3) never later than the earliest requested time ...
              /\ (~ph.dirty => e.x = TrueMin(s)),                 \*      ... and exactly it (Either when a callback re-linked / invalidated during this recalculation: may be earlier)
              [s EXCEPT !.ph = [ph EXCEPT !.k = "cycle", !.rep = e.x]])
      [] e.e = "sweep" ->     R(ph.k = "cycle" /\ ph.rep # NONE /\ ph.rep <= s.clock,
                                [s EXCEPT !.ph = [ph EXCEPT !.k = "sweep", !.snap = Attached(s), !.done = {}, !.dirty = FALSE]])
      \* Pulse(now, scheduled) is called on node n; the node re-arms itself to y and performs o
      [] e.e = "pulse" ->
            LET n  == e.n
            IN R(/\ ph.k = "sweep" /\ n \in s.alive               \* (P1) in particular: none when the root reported a time > t
                 /\ s.valid[n] /\ s.req[n] <= s.clock             \* (P1) never before its time
                 /\ Reached(s, n)                                 \*      Either: see Reached
                 /\ n \notin ph.done                              \* (P2) once per sweep
                 /\ e.now = s.clock /\ e.x = s.req[n]             \* (P4) arguments (t, the time it asked for)
                 /\ (e.y = NEVER \/ (e.y \in Times /\ e.y > s.clock)) /\ OpOK(s, e.o, n),
                 LET s2 == OpDo(s, e.o) IN
                 [s2 EXCEPT !.valid[n] = FALSE, !.ph.done = @ \cup {n}, !.ph.dirty = @ \/ e.o.op \notin {"none", "want"}, !.ph.nest = @ + (IF e.o.op = "none" THEN 0 ELSE 1),
                            !.ph.snap = @ \cup Attached(s2) \cup {n}])
      [] e.e = "sweepEnd" ->  R(ph.k = "sweep" /\ (~ph.dirty => Due(s) = {}),        \* (P1') a sweep without nested operations fires EVERY due node
                                [s EXCEPT !.ph = [ph EXCEPT !.k = "cycle", !.rep = NONE]])
      \* the manager goes to sleep until ph.rep
      [] e.e = "cycleEnd" ->  R(/\ ph.k = "cycle" /\ ph.rep # NONE /\ ph.rep > s.clock
                                /\ Due(s) = {}                                       \* (P1) every due node has fired
                                /\ \A n \in Attached(s) : s.valid[n],                \* (P6) every invalidated node has been asked again before the wait
                                [s EXCEPT !.ph = Idle])
      [] OTHER -> R(FALSE, s)

\* folding a log (used by PulseImpl: one of its steps = a sequence of events)
RECURSIVE Run(_, _, _)
Run(s, log, i) == IF i > Len(log) THEN R(TRUE, s)
                  ELSE LET r == Step(s, log[i]) IN IF r.ok THEN Run(r.s, log, i + 1) ELSE [ok |-> FALSE, s |-> s, at |-> i]

------------------------------------------------------------------------------
(* The acceptor as a specification of its own *)
VARIABLES alive, par, valid, req, clock, ph
avars == <<alive, par, valid, req, clock, ph>>
St == [alive |-> alive, par |-> par, valid |-> valid, req |-> req, clock |-> clock, ph |-> ph]

Do(e) == LET r == Step(St, e) IN
         /\ r.ok
         /\ alive' = r.s.alive /\ par' = r.s.par /\ valid' = r.s.valid /\ req' = r.s.req /\ clock' = r.s.clock /\ ph' = r.s.ph

Ops(self) == {[op |-> "attach", a |-> a, b |-> b, t |-> 0] : a \in Nodes, b \in Nodes}
        \cup {[op |-> "remove", a |-> a, b |-> b, t |-> 0] : a \in Nodes, b \in Nodes}
        \cup {[op |-> "inval", a |-> a, b |-> 0, t |-> c] : a \in Nodes, c \in {0, 1}}
        \cup {[op |-> o, a |-> a, b |-> 0, t |-> 0] : o \in {"destroy", "create", "clear"}, a \in Nodes}
        \cup {[op |-> "tick", a |-> 0, b |-> 0, t |-> t] : t \in Times}

Init == /\ alive = Init0.alive /\ par = Init0.par /\ valid = Init0.valid /\ req = Init0.req /\ clock = 0 /\ ph = Idle

TopOp     == \E o \in Ops(NONE) : Do(Ev("op", 0, 0, 0, 0, o))
CycleBeg  == Do(Ev("cycle", 0, clock, 0, 0, NoOp))
RecalcBeg == Do(Ev("recalc", 0, 0, 0, 0, NoOp))
Ask       == \E n \in Nodes, y \in TimesN : \E o \in (IF ph.nest < NestedMax THEN Ops(n) ELSE {}) \cup {NoOp} : Do(Ev("ask", n, clock, req[n], y, o))
RecalcEnd == \E x \in TimesN : Do(Ev("recalcEnd", 0, 0, x, 0, NoOp))
SweepBeg  == Do(Ev("sweep", 0, 0, 0, 0, NoOp))
Pulse     == \E n \in Nodes, y \in TimesN : \E o \in (IF ph.nest < NestedMax THEN Ops(n) ELSE {}) \cup {NoOp} : Do(Ev("pulse", n, clock, req[n], y, o))
SweepEnd  == Do(Ev("sweepEnd", 0, 0, 0, 0, NoOp))
CycleEnd  == Do(Ev("cycleEnd", 0, 0, 0, 0, NoOp))

Next == TopOp \/ CycleBeg \/ RecalcBeg \/ Ask \/ RecalcEnd \/ SweepBeg \/ Pulse \/ SweepEnd \/ CycleEnd
Spec == Init /\ [][Next]_avars

TypeOK == /\ alive \subseteq Nodes /\ Root \in alive
          /\ par \in [Nodes -> Nodes \cup {NONE}] /\ par[Root] = NONE
          /\ valid \in [Nodes -> BOOLEAN] /\ req \in [Nodes -> TimesN] /\ clock \in Times
          /\ ph.k \in {"idle", "cycle", "recalc", "sweep"}
\* the parent relation is a forest over the living nodes
Forest == \A n \in Nodes : /\ (par[n] # NONE => (n \in alive /\ par[n] \in alive))
                           /\ (n \in alive => Cardinality(Up(par, n, N)) <= N /\ (NONE \notin Up(par, n, N)))
                           /\ ~(\E m \in Nodes : m # n /\ InSub(St, n, m) /\ InSub(St, m, n))
\* what the manager relies on when it goes to sleep: nothing attached is due, everything attached knows its time
Settled == \A n \in Attached(St) : valid[n] /\ req[n] > clock
SleepSafe == [][(ph.k = "cycle" /\ ph'.k = "idle") => Settled']_avars
\* reachability targets (each must be VIOLATED: the acceptor is not vacuous)
Reach_Pulse2    == ~(ph.k = "sweep" /\ Cardinality(ph.done) >= 2)
Reach_DirtyEnd  == ~(ph.k = "cycle" /\ ph.rep # NONE /\ ph.dirty /\ ph.rep < TrueMin(St))
Reach_Deferred  == ~(ph.k = "cycle" /\ ph.rep = NONE /\ ph.dirty /\ Due(St) # {})
=============================================================================
