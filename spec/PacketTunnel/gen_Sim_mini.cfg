SPECIFICATION Spec
CONSTANTS
  Senders = {1, 2}
  MaxIn = 0
  Faults = {"Lose", "Dup", "Reorder"}
  MaxCopies = 2
  Sizes = {0, 40, 80, 120}
  MaxMsgs = 4
  PH = 12
  CH = 4
  MTUs = {200}
  PIDSPACE = 4
  FirstPID = 3
  Levels = {0, 6}
  OutModes = {"all", "one", "hold"}
  Compressible = TRUE
  Deviations = {"F32"}
  RECORD = TRUE
  HIST = TRUE
INVARIANTS PrintDone
