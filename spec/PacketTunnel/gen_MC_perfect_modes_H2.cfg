SPECIFICATION Spec
CONSTANTS
  Senders = {1}
  MaxIn = 99
  Faults = {}
  MaxCopies = 2
  Sizes = {0, 1, 2, 3, 5, 8, 13}
  MaxMsgs = 3
  H = 2
  MTUs = {3, 4, 5, 6, 7, 8, 9, 10}
  IDSPACE = 8
  FirstID = 7
  OutModes = {"all", "one", "hold"}
  Deviations = {"F31"}
  RECORD = FALSE
  HIST = FALSE
INVARIANTS TypeOK NeverDeliversUnsent WithinMTU PerfectInOrder PerfectExactlyOnce AtMostOnceWithoutDup
PROPERTIES AbsRefines
