SPECIFICATION Spec
CONSTANTS
  Senders = {1, 2}
  MaxIn = 99
  Faults = {"Lose", "Dup", "Reorder"}
  MaxCopies = 2
  Sizes = {1, 2}
  MaxMsgs = 2
  H = 1
  MTUs = {2}
  IDSPACE = 8
  FirstID = 7
  OutModes = {"all"}
  Deviations = {"F31"}
  RECORD = FALSE
  HIST = FALSE
INVARIANTS TypeOK NeverDeliversUnsent WithinMTU PerfectInOrder PerfectExactlyOnce AtMostOnceWithoutDup
PROPERTIES AbsRefines
