SPECIFICATION Spec
CONSTANTS
  Senders = {1}
  MaxIn = 2
  Faults = {}
  MaxCopies = 2
  Sizes = {1, 3}
  MaxMsgs = 2
  H = 1
  MTUs = {6}
  IDSPACE = 8
  FirstID = 7
  OutModes = {"all"}
  Deviations = {"F31"}
  RECORD = FALSE
  HIST = FALSE
INVARIANTS PerfectExactlyOnceStrict
