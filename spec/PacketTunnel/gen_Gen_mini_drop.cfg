SPECIFICATION Spec
CONSTANTS
  Senders = {1}
  MaxIn = 0
  Faults = {}
  MaxCopies = 2
  Sizes = {1, 84, 85}
  MaxMsgs = 3
  PH = 12
  CH = 4
  MTUs = {100}
  PIDSPACE = 4
  FirstPID = 3
  Levels = {0}
  OutModes = {"all"}
  Compressible = FALSE
  Deviations = {"F32"}
  RECORD = TRUE
  HIST = FALSE
INVARIANTS TypeOK
