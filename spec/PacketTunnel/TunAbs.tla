------------------------------- MODULE TunAbs -------------------------------
(***************************************************************************)
(* C12, the property.  What a packet tunnel (PacketTunnelIOGateway or      *)
(* MiniPacketTunnelIOGateway) promises, independent of how it fragments.   *)
(*                                                                          *)
(* A Message is identified by its sender s and its number n in that        *)
(* sender's sequence; its content is its size and its bytes, and byte o of *)
(* Message (s, n) is the value (s, n, o): different for every Message and  *)
(* every position, so that ANY mis-assembly (bytes of another Message, of  *)
(* another sender, at another position, repeated, missing) is visible.     *)
(* A buffer is written as its list of maximal runs [s, n, o, l] = l bytes  *)
(* (s, n, o) .. (s, n, o+l-1); the buffer of an intact Message of size z   *)
(* is the single run [s, n, 0, z] (no run at all when z = 0).              *)
(***************************************************************************)
EXTENDS Naturals, Sequences, FiniteSets

CONSTANTS Senders,   \* source addresses (small integers)
          MaxIn      \* the receiver's SetMaxIncomingMessageSize() (a number larger than every size = no limit)

VARIABLES sent,      \* [Senders -> Seq(Nat)]: sent[s][n] = size of the n-th Message sender s handed to its gateway
          delivered  \* sequence of [s |-> source address reported with the Message, size |-> Nat, buf |-> runs]

Run(s, n, o, l)  == [s |-> s, n |-> n, o |-> o, l |-> l]
Content(s, n, z) == IF z = 0 THEN <<>> ELSE <<Run(s, n, 0, z)>>

\* d is bit-identical to a Message that its reported source did send
IsSent(d) == \E n \in 1..Len(sent[d.s]) : d.size = sent[d.s][n] /\ d.buf = Content(d.s, n, d.size)

AbsInit == sent = [s \in Senders |-> <<>>] /\ delivered = <<>>
AbsSend(s, z)   == sent' = [sent EXCEPT ![s] = Append(@, z)] /\ UNCHANGED delivered
\* one receive call may hand over several Messages
AbsDeliver(ds)  == /\ \A i \in 1..Len(ds) : IsSent(ds[i])
                   /\ delivered' = delivered \o ds /\ UNCHANGED sent

------------------------------------------------------------------------------
(* clause 1: over ANY network, every Message handed to the receiver is bit-identical to some Message that was sent *)
(* by the source it is attributed to; fragments of different Messages / senders are never combined                 *)
NeverDeliversUnsent == \A i \in 1..Len(delivered) : IsSent(delivered[i])

\* the same clause as a step property (what TLC checks as refinement of the implementation-shaped modules):
\* `sent` only grows at its end, `delivered` only grows at its end, by Messages that were sent
IsPrefix(a, b) == Len(a) <= Len(b) /\ \A i \in 1..Len(a) : a[i] = b[i]
AbsStep == /\ \A s \in Senders : IsPrefix(sent[s], sent'[s])
           /\ IsPrefix(delivered, delivered')
           /\ \A i \in (Len(delivered) + 1)..Len(delivered') : \E n \in 1..Len(sent[delivered'[i].s]) :
                  delivered'[i].size = sent[delivered'[i].s][n] /\ delivered'[i].buf = Content(delivered'[i].s, n, delivered'[i].size)

(* clause 2: when the network delivers every packet once and in order, every sent Message that fits the limits is  *)
(* delivered exactly once, in order (per sender; Messages of different senders interleave freely).                 *)
(* WHICH Messages fit is supplied by the implementation-shaped module: F[s] = set of the numbers n that are due.  *)
DeliveredFrom(s) == SelectSeq(delivered, LAMBDA d : d.s = s)
RECURSIVE DueFrom(_, _, _)
DueFrom(s, n, Fs) == IF n > Len(sent[s]) THEN <<>>
                     ELSE (IF n \in Fs THEN <<[s |-> s, size |-> sent[s][n], buf |-> Content(s, n, sent[s][n])]>> ELSE <<>>) \o DueFrom(s, n + 1, Fs)
InOrderSoFar(F)       == \A s \in Senders : IsPrefix(DeliveredFrom(s), DueFrom(s, 1, F[s]))
ExactlyOnceInOrder(F) == \A s \in Senders : DeliveredFrom(s) = DueFrom(s, 1, F[s])
=============================================================================
