SPECIFICATION Spec
CONSTANTS
  Senders = {1}
  MaxIn = 0
  Faults = {}
  MaxCopies = 2
  Sizes = {0, 1, 2, 14, 15, 29, 30, 44}
  MaxMsgs = 3
  PH = 12
  CH = 4
  MTUs = {17, 18, 19, 30, 31, 45, 46, 60}
  PIDSPACE = 4
  FirstPID = 3
  Levels = {0, 6}
  OutModes = {"all", "one", "hold"}
  Compressible = FALSE
  Deviations = {"F32"}
  RECORD = FALSE
  HIST = FALSE
INVARIANTS TypeOK NeverDeliversUnsent WithinMTU PerfectInOrder PerfectExactlyOnce DropsOnlyTooLarge
PROPERTIES AbsRefines
