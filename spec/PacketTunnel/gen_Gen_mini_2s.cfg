SPECIFICATION Spec
CONSTANTS
  Senders = {1, 2}
  MaxIn = 0
  Faults = {"Lose", "Dup", "Reorder"}
  MaxCopies = 1
  Sizes = {0, 60}
  MaxMsgs = 2
  PH = 12
  CH = 4
  MTUs = {100}
  PIDSPACE = 4
  FirstPID = 3
  Levels = {6}
  OutModes = {"all"}
  Compressible = TRUE
  Deviations = {"F32"}
  RECORD = TRUE
  HIST = FALSE
INVARIANTS TypeOK
