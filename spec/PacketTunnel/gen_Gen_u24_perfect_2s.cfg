SPECIFICATION Spec
CONSTANTS
  Senders = {1, 2}
  MaxIn = 99
  Faults = {}
  MaxCopies = 2
  Sizes = {2, 4}
  MaxMsgs = 2
  H = 1
  MTUs = {3}
  IDSPACE = 8
  FirstID = 7
  OutModes = {"all", "one"}
  Deviations = {"F31"}
  RECORD = TRUE
  HIST = FALSE
INVARIANTS TypeOK
