SPECIFICATION Spec
CONSTANTS
  Senders = {1}
  MaxIn = 99
  Faults = {"Lose", "Dup", "Reorder"}
  MaxCopies = 2
  Sizes = {2, 3, 5}
  MaxMsgs = 2
  H = 1
  MTUs = {4}
  IDSPACE = 8
  FirstID = 7
  OutModes = {"all", "one", "hold"}
  Deviations = {"F31"}
  RECORD = TRUE
  HIST = FALSE
INVARIANTS TypeOK
