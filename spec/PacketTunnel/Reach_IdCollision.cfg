SPECIFICATION Spec
CONSTANTS
  Senders = {1}
  MaxIn = 99
  Faults = {"Lose", "Dup", "Reorder"}
  MaxCopies = 2
  Sizes = {1, 2}
  MaxMsgs = 3
  H = 1
  MTUs = {2}
  IDSPACE = 2
  FirstID = 0
  OutModes = {"all"}
  Deviations = {}
  RECORD = FALSE
  HIST = FALSE
INVARIANTS NeverDeliversUnsent
