SPECIFICATION Spec
CONSTANTS
  Senders = {1}
  MaxIn = 99
  Faults = {"Lose", "Dup", "Reorder"}
  MaxCopies = 2
  Sizes = {0, 1, 25, 26}
  MaxMsgs = 2
  H = 24
  MTUs = {49}
  IDSPACE = 8
  FirstID = 7
  OutModes = {"all"}
  Deviations = {"F31"}
  RECORD = TRUE
  HIST = FALSE
INVARIANTS TypeOK
