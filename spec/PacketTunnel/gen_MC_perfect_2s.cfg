SPECIFICATION Spec
CONSTANTS
  Senders = {1, 2}
  MaxIn = 99
  Faults = {}
  MaxCopies = 2
  Sizes = {0, 1, 3}
  MaxMsgs = 2
  H = 1
  MTUs = {3}
  IDSPACE = 8
  FirstID = 7
  OutModes = {"all", "one"}
  Deviations = {"F31"}
  RECORD = FALSE
  HIST = FALSE
INVARIANTS TypeOK NeverDeliversUnsent WithinMTU PerfectInOrder PerfectExactlyOnce AtMostOnceWithoutDup
PROPERTIES AbsRefines
