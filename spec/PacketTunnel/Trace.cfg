SPECIFICATION TraceSpec
CONSTANTS
  Senders = {1, 2, 3}
  MaxIn = 0
INVARIANTS Clause1 Clause2 PacketsOK NotAccepted
