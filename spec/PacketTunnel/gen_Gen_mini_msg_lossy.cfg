SPECIFICATION Spec
CONSTANTS
  Senders = {1}
  MaxIn = 0
  Faults = {"Lose", "Dup", "Reorder"}
  MaxCopies = 2
  Sizes = {50, 80}
  MaxMsgs = 2
  PH = 12
  CH = 4
  MTUs = {120}
  PIDSPACE = 4
  FirstPID = 3
  Levels = {0}
  OutModes = {"all"}
  Compressible = FALSE
  Deviations = {"F32"}
  RECORD = TRUE
  HIST = FALSE
INVARIANTS TypeOK
