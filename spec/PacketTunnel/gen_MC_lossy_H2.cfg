SPECIFICATION Spec
CONSTANTS
  Senders = {1}
  MaxIn = 99
  Faults = {"Lose", "Dup", "Reorder"}
  MaxCopies = 2
  Sizes = {0, 1, 3, 4}
  MaxMsgs = 2
  H = 2
  MTUs = {4}
  IDSPACE = 8
  FirstID = 7
  OutModes = {"all", "one", "hold"}
  Deviations = {"F31"}
  RECORD = FALSE
  HIST = FALSE
INVARIANTS TypeOK NeverDeliversUnsent WithinMTU PerfectInOrder PerfectExactlyOnce AtMostOnceWithoutDup
PROPERTIES AbsRefines
