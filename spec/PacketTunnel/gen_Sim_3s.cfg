SPECIFICATION Spec
CONSTANTS
  Senders = {1, 2, 3}
  MaxIn = 99
  Faults = {"Lose", "Dup", "Reorder"}
  MaxCopies = 2
  Sizes = {0, 2, 3, 5}
  MaxMsgs = 3
  H = 1
  MTUs = {3}
  IDSPACE = 8
  FirstID = 7
  OutModes = {"all", "one", "hold"}
  Deviations = {"F31"}
  RECORD = TRUE
  HIST = TRUE
INVARIANTS PrintDone
