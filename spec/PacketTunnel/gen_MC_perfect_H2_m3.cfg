SPECIFICATION Spec
CONSTANTS
  Senders = {1}
  MaxIn = 99
  Faults = {}
  MaxCopies = 2
  Sizes = {0, 1, 2, 1, 2, 3}
  MaxMsgs = 3
  H = 2
  MTU = 3
  IDSPACE = 8
  FirstID = 7
  OutModes = {"all", "one", "hold"}
  Deviations = {"F31"}
  RECORD = FALSE
  HIST = FALSE
INVARIANTS TypeOK NeverDeliversUnsent WithinMTU PerfectInOrder PerfectExactlyOnce AtMostOnceWithoutDup
PROPERTIES AbsRefines
