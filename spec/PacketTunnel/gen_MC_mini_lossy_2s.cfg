SPECIFICATION Spec
CONSTANTS
  Senders = {1, 2}
  MaxIn = 0
  Faults = {"Lose", "Dup", "Reorder"}
  MaxCopies = 2
  Sizes = {0, 20}
  MaxMsgs = 2
  PH = 12
  CH = 4
  MTUs = {40}
  PIDSPACE = 4
  FirstPID = 3
  Levels = {0}
  OutModes = {"all"}
  Compressible = TRUE
  Deviations = {"F32"}
  RECORD = FALSE
  HIST = FALSE
INVARIANTS TypeOK NeverDeliversUnsent WithinMTU PerfectInOrder PerfectExactlyOnce DropsOnlyTooLarge
PROPERTIES AbsRefines
