SPECIFICATION Spec
CONSTANTS
  Senders = {1}
  MaxIn = 0
  Faults = {}
  MaxCopies = 2
  Sizes = {50, 70, 110}
  MaxMsgs = 3
  PH = 12
  CH = 4
  MTUs = {140}
  PIDSPACE = 4
  FirstPID = 3
  Levels = {0}
  OutModes = {"all", "one", "hold"}
  Compressible = FALSE
  Deviations = {"F32"}
  RECORD = TRUE
  HIST = FALSE
INVARIANTS TypeOK
