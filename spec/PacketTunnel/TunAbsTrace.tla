----------------------------- MODULE TunAbsTrace -----------------------------
(* Trace validation for C12 (code -> spec): the event log of real tunnel gateways (either kind, any slave) run over a     *)
(* scripted faulty PacketDataIO is checked against TunAbs, one state per line.                                            *)
(*   {"e":"Reset","perfect":b}                  a new execution (perfect = every packet handed over once, in order)       *)
(*   {"e":"send","s":s,"z":size,"due":b}        sender s hands its next Message to its gateway; due = it fits the limits  *)
(*   {"e":"out","s":s,"len":n,"mtu":m}          the sender's gateway wrote a packet                                        *)
(*   {"e":"in","s":s,"k":k,"len":n}             the network hands packet k of sender s to the receiver's gateway           *)
(*   {"e":"deliver","s":s,"size":z,"runs":[[s,n,o,l],..]}   the receiver's gateway handed over a Message attributed to s;  *)
(*                                              runs = its bytes decoded as (sender, Message number, offset) runs          *)
(*   {"e":"quiet"}                              everything was written and handed over                                    *)
EXTENDS TunAbs, TLC, Json, IOUtils

VARIABLES l,        \* next line
          due,      \* [Senders -> Seq(BOOLEAN)]: TRUE = must be handed over on a perfect network; FALSE = may (outside the limits / open known finding F15)
          perfect,
          pkts,     \* packets written so far (count), packets handed over
          bad       \* "" or the name of a packet-level promise that was broken (not part of the property: drift)

TraceLog == ndJsonDeserialize(IOEnv.TRACE)
N == Len(TraceLog)
tvars == <<sent, delivered, l, due, perfect, pkts, bad>>

TraceInit == AbsInit /\ l = 1 /\ due = [s \in Senders |-> <<>>] /\ perfect = FALSE /\ pkts = 0 /\ bad = ""

ToRun(r) == Run(r[1], r[2], r[3], r[4])
Ln == TraceLog[l]

TReset == /\ Ln.e = "Reset"
          /\ sent' = [s \in Senders |-> <<>>] /\ delivered' = <<>> /\ due' = [s \in Senders |-> <<>>]
          /\ perfect' = Ln.perfect /\ pkts' = 0 /\ UNCHANGED bad
TSend  == /\ Ln.e = "send" /\ Ln.s \in Senders
          /\ AbsSend(Ln.s, Ln.z)
          /\ due' = [due EXCEPT ![Ln.s] = Append(@, Ln.due)] /\ UNCHANGED <<perfect, pkts, bad>>
TOut   == /\ Ln.e = "out"
          /\ pkts' = pkts + 1
          /\ bad' = IF Ln.len > Ln.mtu \/ Ln.len = 0 THEN "packet larger than the MTU" ELSE bad
          /\ UNCHANGED <<sent, delivered, due, perfect>>
TIn    == /\ Ln.e = "in" /\ UNCHANGED <<sent, delivered, due, perfect, pkts, bad>>
\* NO precondition: whatever the code handed over is appended, the invariants judge it
TDeliver == /\ Ln.e = "deliver"
            /\ delivered' = Append(delivered, [s |-> Ln.s, size |-> Ln.size, buf |-> [i \in 1..Len(Ln.runs) |-> ToRun(Ln.runs[i])]])
            /\ UNCHANGED <<sent, due, perfect, pkts, bad>>
TQuiet == /\ Ln.e = "quiet" /\ UNCHANGED <<sent, delivered, due, perfect, pkts, bad>>

TraceNext == l <= N /\ l' = l + 1 /\ (TReset \/ TSend \/ TOut \/ TIn \/ TDeliver \/ TQuiet)
TraceSpec == TraceInit /\ [][TraceNext]_tvars

\* clause 1, at every line
Clause1 == NeverDeliversUnsent
\* clause 2, at the "quiet" line of a perfect execution (the line just consumed is l - 1): per source, what was handed over
\* is explained, in order, by the sent Messages - the required ones all present, the others present or not
RECURSIVE Explains(_, _, _, _)
Explains(s, j, i, D) ==
    IF j > Len(sent[s]) THEN i > Len(D)
    ELSE \/ i <= Len(D) /\ D[i].size = sent[s][j] /\ D[i].buf = Content(s, j, sent[s][j]) /\ Explains(s, j + 1, i + 1, D)
         \/ ~due[s][j] /\ Explains(s, j + 1, i, D)
Clause2 == (l > 1 /\ TraceLog[l - 1].e = "quiet" /\ perfect) => \A s \in Senders : Explains(s, 1, 1, DeliveredFrom(s))
PacketsOK == bad = ""

\* "violated" = the whole log was consumed
NotAccepted == l <= N
=============================================================================
