------------------------------- MODULE TunImpl -------------------------------
(***************************************************************************)
(* iogateway/PacketTunnelIOGateway.cpp as coded.                            *)
(*                                                                          *)
(*  sender s   : outgoing queue sq, message-id counter sid (modulo IDSPACE; *)
(*               2^32 in the code), offset coff inside the Message being    *)
(*               fragmented, packet under construction opkt                 *)
(*               (DoOutputImplementation)                                   *)
(*  fragment   : [id, off, len, tot] + len data bytes; H = header size      *)
(*  receiver   : per SOURCE ADDRESS a ReceiveState {id, off, buffer} with   *)
(*               the acceptance test of DoInputImplementation               *)
(*  network    : module Net                                                 *)
(*                                                                          *)
(* One action per public call: Send = AddOutgoingMessage, Out = DoOutput    *)
(* (three ways the call can go), Deliver = DoInput with one packet waiting  *)
(* (which packet = the network's fault schedule).  Sizes are in units; the  *)
(* harness maps a unit to 24 / H bytes so that H units are the real 24-byte *)
(* fragment header.                                                         *)
(* The property (TunAbs) is at the bottom.                                  *)
(***************************************************************************)
EXTENDS Net, TLC, Json

CONSTANTS Sizes,       \* sizes a sent Message may have
          MaxMsgs,     \* Messages per sender
          H,           \* fragment header size
          MTUs,        \* the maximum transfer units to check, each >= H + 1 (one is chosen at the start: a single TLC run sweeps them)
          IDSPACE,     \* message ids are counted modulo IDSPACE
          FirstID,     \* id of every sender's first Message (puts the wrap-around inside short behaviours)
          OutModes,    \* how a DoOutput call may go: subset of {"all", "one", "hold"}
          Deviations,  \* named deviations from the code as it is (all off by default; each makes an invariant fail: vacuity guards):
                       \*   "F31"   the code as it WAS before repair 56cd5f9: a fragment of an over-limit Message ENDS the parse of its packet
                       \*           (`else break;`), so Messages that fit but follow it in the same packet are lost with it;
                       \*           without "F31" (the code now) the fragment is skipped and the parse goes on
                       \*   "noid"  acceptance test without the message-id comparison      (spec mutant, shows NeverDeliversUnsent can fail)
                       \*   "nooff" acceptance test without the offset comparison          (spec mutant)
                       \*   "nokey" one ReceiveState shared by all source addresses        (spec mutant)
                       \*   "srconce" the source address is looked up once per DoInput() call: every packet read by the call is
                       \*           attributed to the source of the first one                      (spec mutant)
          RECORD,      \* TRUE: `last` describes the step (behaviour generation)
          HIST         \* TRUE: `hist` accumulates the steps (simulation mode)

ASSUME (\A m \in MTUs : m >= H + 1) /\ H >= 1 /\ FirstID \in 0..(IDSPACE - 1)

VARIABLES sq,    \* [Senders -> Seq([n, size])]: Messages handed to the gateway and not yet completely fragmented
          sid,   \* [Senders -> 0..IDSPACE-1]: _sendMessageIDCounter
          coff,  \* [Senders -> Nat]: _currentOutputBufferOffset
          opkt,  \* [Senders -> Seq(fragment)]: _outputPacketBuffer[0.._outputPacketSize) (non-empty between calls only if a Write() returned 0)
          rs,    \* [Senders -> ReceiveState]: _receiveStates
          mtu,   \* the constructor argument maxTransferUnit (constant during a behaviour)
          last, hist

vars == <<sent, delivered, pk, cnt, rxq, sq, sid, coff, opkt, rs, mtu, last, hist>>

Min(a, b) == IF a < b THEN a ELSE b
G == [s |-> 0, n |-> 0, o |-> 0]                           \* a byte nobody wrote (SetNumBytes(.., false) keeps whatever was there)
NoRS == [have |-> FALSE, id |-> 0, off |-> 0, buf |-> <<>>] \* Len(buf) = rs->_buf()->GetNumBytes()

Init == /\ AbsInit /\ NetInit
        /\ sq = [s \in Senders |-> <<>>] /\ sid = [s \in Senders |-> FirstID] /\ coff = [s \in Senders |-> 0]
        /\ opkt = [s \in Senders |-> <<>>] /\ rs = [s \in Senders |-> NoRS]
        /\ mtu \in MTUs
        /\ last = [a |-> "Init"] /\ hist = <<>>

Rec(r) == /\ mtu' = mtu
          /\ last' = IF RECORD THEN r ELSE last
          /\ hist' = IF HIST THEN Append(hist, r) ELSE hist

\* --- sender --------------------------------------------------------------------------------------
RECURSIVE PktSize(_)
PktSize(p) == IF p = <<>> THEN 0 ELSE H + Head(p).len + PktSize(Tail(p))

\* Step 1 of DoOutputImplementation: add fragments while a header and at least one more byte fit
RECURSIVE Fill(_)
Fill(st) ==
    IF PktSize(st.pkt) + H < mtu /\ st.q # <<>>
    THEN LET m    == Head(st.q)
             len  == Min(mtu - (PktSize(st.pkt) + H), m.size - st.coff)
             f    == [id |-> st.id, off |-> st.coff, len |-> len, tot |-> m.size, n |-> m.n]
             done == st.coff + len = m.size
         IN Fill([q    |-> IF done THEN Tail(st.q) ELSE st.q,
                  id   |-> IF done THEN (st.id + 1) % IDSPACE ELSE st.id,
                  coff |-> IF done THEN 0 ELSE st.coff + len,
                  pkt  |-> Append(st.pkt, f)])
    ELSE st
\* the whole loop with an IO that accepts every packet: fill, write, again, until there is nothing to write
RECURSIVE Drain(_, _)
Drain(st, out) == LET f == Fill(st) IN IF f.pkt = <<>> THEN [st |-> f, out |-> out]
                                       ELSE Drain([f EXCEPT !.pkt = <<>>], Append(out, f.pkt))

Send(s, z) ==
    /\ Len(sent[s]) < MaxMsgs /\ z \in Sizes
    /\ AbsSend(s, z)
    /\ sq' = [sq EXCEPT ![s] = Append(@, [n |-> Len(sent[s]) + 1, size |-> z])]
    /\ NetIdle /\ UNCHANGED <<sid, coff, opkt, rs>>
    /\ Rec([a |-> "Send", s |-> s, z |-> z, n |-> Len(sent[s]) + 1])

\* DoOutput():  "all"  = DoOutput(MUSCLE_NO_LIMIT), every Write() accepted
\*              "one"  = DoOutput(1): the loop ends after the first packet written
\*              "hold" = the IO's Write() returns 0: the packet built so far is kept for the next call
Out(s, mode) ==
    /\ mode \in OutModes
    /\ sq[s] # <<>> \/ opkt[s] # <<>>
    /\ LET st0 == [q |-> sq[s], id |-> sid[s], coff |-> coff[s], pkt |-> opkt[s]]
           all == Drain(st0, <<>>)
           f   == Fill(st0)
           r   == CASE mode = "all"  -> all
                    [] mode = "one"  -> [st |-> [f EXCEPT !.pkt = <<>>], out |-> IF f.pkt = <<>> THEN <<>> ELSE <<f.pkt>>]
                    [] mode = "hold" -> [st |-> f, out |-> <<>>]
       IN /\ (mode = "one"  => r # all)         \* otherwise the same step as "all"
          /\ (mode = "hold" => r.st # st0)      \* otherwise nothing happens at all
          /\ sq' = [sq EXCEPT ![s] = r.st.q] /\ sid' = [sid EXCEPT ![s] = r.st.id]
          /\ coff' = [coff EXCEPT ![s] = r.st.coff] /\ opkt' = [opkt EXCEPT ![s] = r.st.pkt]
          /\ NetWrite(s, r.out)
          /\ Rec([a |-> "Out", s |-> s, mode |-> mode, pkts |-> r.out,
                  sid |-> r.st.id, coff |-> r.st.coff, held |-> PktSize(r.st.pkt), left |-> Len(r.st.q)])
    /\ UNCHANGED <<sent, delivered, rs>>

\* --- receiver ------------------------------------------------------------------------------------
Key(s) == IF "nokey" \in Deviations THEN CHOOSE x \in Senders : \A y \in Senders : x <= y ELSE s

Fresh(f) == [have |-> TRUE, id |-> f.id, off |-> 0, buf |-> [i \in 1..f.tot |-> G]]
Cleared(r) == [r EXCEPT !.off = 0, !.buf = <<>>]
\* memcpy(buf + offset, data, chunk): data = bytes off .. off+len-1 of Message (s, n)
Store(buf, s, f) == [i \in 1..Len(buf) |-> IF f.off < i /\ i <= f.off + f.len THEN [s |-> s, n |-> f.n, o |-> i - 1] ELSE buf[i]]

\* a buffer as its list of maximal runs
RECURSIVE Runs(_, _, _)
Runs(buf, i, acc) ==
    IF i > Len(buf) THEN acc
    ELSE LET c == buf[i]
             k == Len(acc)
         IN IF k > 0 /\ acc[k].s = c.s /\ acc[k].n = c.n /\ acc[k].o + acc[k].l = c.o /\ c # G
            THEN Runs(buf, i + 1, [acc EXCEPT ![k].l = @ + 1])
            ELSE Runs(buf, i + 1, Append(acc, Run(c.s, c.n, c.o, 1)))

\* the fragments of one packet written by sender s and attributed to source address a (a = s in the code as it is), in order;
\* r = ReceiveState of a; dl = Messages handed over so far
RECURSIVE Proc(_, _, _, _, _)
Proc(a, s, r, fr, dl) ==
    IF fr = <<>> THEN [r |-> r, dl |-> dl]
    ELSE LET f == Head(fr) IN
         IF f.tot > MaxIn THEN (IF "F31" \in Deviations THEN [r |-> r, dl |-> dl] ELSE Proc(a, s, r, Tail(fr), dl))   \* `else break;` (F31) / skip
         ELSE LET r1 == IF ~r.have THEN (IF f.off = 0 THEN Fresh(f) ELSE r) ELSE r        \* a new ReceiveState only for a first fragment
              IN IF ~r1.have THEN Proc(a, s, r1, Tail(fr), dl)
                 ELSE LET r2   == IF f.off = 0 /\ f.id # r1.id THEN Fresh(f) ELSE r1      \* a new Message begins (only at its beginning)
                          size == Len(r2.buf)
                          acc  == /\ ("noid" \in Deviations \/ f.id = r2.id)
                                  /\ f.tot = size
                                  /\ ("nooff" \in Deviations \/ f.off = r2.off)
                                  /\ f.off + f.len <= size
                      IN IF acc
                         THEN LET b == Store(r2.buf, s, f)
                                  o == r2.off + f.len
                              IN IF o = size
                                 THEN Proc(a, s, Cleared(r2), Tail(fr), Append(dl, [s |-> a, size |-> size, buf |-> Runs(b, 1, <<>>)]))
                                 ELSE Proc(a, s, [r2 EXCEPT !.off = o, !.buf = b], Tail(fr), dl)
                         ELSE Proc(a, s, Cleared(r2), Tail(fr), dl)                           \* "Unknown fragment ... ignoring it"

\* one DoInput() call reads the packets of `batch` one after the other; every packet has its own source address
RECURSIVE ProcBatch(_, _, _, _)
ProcBatch(rsAll, batch, i, dl) ==
    IF i > Len(batch) THEN [rs |-> rsAll, dl |-> dl]
    ELSE LET e == batch[i]
             a == IF "srconce" \in Deviations THEN batch[1].s ELSE e.s
             r == Proc(a, e.s, rsAll[Key(a)], pk[e.s][e.k], dl)
         IN ProcBatch([rsAll EXCEPT ![Key(a)] = r.r], batch, i + 1, r.dl)

\* a copy of packet k of sender s arrives and the receiver calls DoInput(), which reads what was waiting and then this packet
Deliver(s, k) ==
    /\ CanTake(s, k) /\ NetTake(s, k)
    /\ LET r == ProcBatch(rs, Batch(s, k), 1, <<>>)
       IN /\ rs' = r.rs
          /\ delivered' = delivered \o r.dl
          /\ Rec([a |-> "Deliver", s |-> s, k |-> k, fault |-> Fault(s, k), waiting |-> Len(rxq), dl |-> r.dl,
                  have |-> r.rs[Key(s)].have, id |-> r.rs[Key(s)].id, off |-> r.rs[Key(s)].off, size |-> Len(r.rs[Key(s)].buf)])
    /\ UNCHANGED <<sent, sq, sid, coff, opkt>>
\* a copy of packet k of sender s arrives in the receiver's socket; no DoInput() call yet
Arrive(s, k) ==
    /\ CanWait(s, k) /\ NetWait(s, k)
    /\ Rec([a |-> "Arrive", s |-> s, k |-> k, fault |-> Fault(s, k)])
    /\ UNCHANGED <<sent, delivered, sq, sid, coff, opkt, rs>>
\* DoInput() with only the waiting packets
ReadWaiting ==
    /\ rxq # <<>> /\ NetDrain
    /\ LET r == ProcBatch(rs, rxq, 1, <<>>)
       IN /\ rs' = r.rs /\ delivered' = delivered \o r.dl
          /\ Rec([a |-> "Drain", s |-> rxq[1].s, dl |-> r.dl])
    /\ UNCHANGED <<sent, sq, sid, coff, opkt>>

\* which packet is handed over next is the network's choice
Receive(s) == \E k \in 1..Len(pk[s]) : Deliver(s, k) \/ Arrive(s, k)

Next == \/ ReadWaiting
        \/ \E s \in Senders :
           \/ \E z \in Sizes : Send(s, z)
           \/ \E m \in {"all", "one", "hold"} : Out(s, m)
           \/ Receive(s)

Spec == Init /\ [][Next]_vars

------------------------------------------------------------------------------
(* The property *)

TypeOK == /\ \A s \in Senders : sid[s] \in 0..(IDSPACE - 1) /\ coff[s] \in Nat /\ Len(cnt[s]) = Len(pk[s])
          /\ \A s \in Senders : rs[s].have \in BOOLEAN /\ rs[s].off <= Len(rs[s].buf)

\* clause 1 (TunAbs): NeverDeliversUnsent as a state invariant, AbsRefines as the step property
AbsRefines == [][AbsStep]_<<sent, delivered>>

\* "keep packet size smaller than the physical layer's MTU" (class comment), and no packet without payload room
WithinMTU == \A s \in Senders : \A k \in 1..Len(pk[s]) : PktSize(pk[s][k]) <= mtu /\ pk[s][k] # <<>>

\* clause 2: which Messages are due on a perfect network: those within the receiver's size limit (DueStrict, the property
\* as stated).  With the deviation "F31" the Messages with a fragment that FOLLOWS a fragment of an over-limit Message in
\* the same packet are not due (Due): that is what the code did before the repair.
Oversize(s, n)   == sent[s][n] > MaxIn
Collateral(s, n) == \E k \in 1..Len(pk[s]) : \E i, j \in 1..Len(pk[s][k]) : i < j /\ pk[s][k][i].tot > MaxIn /\ pk[s][k][j].n = n
DueStrict == [s \in Senders |-> {n \in 1..Len(sent[s]) : ~Oversize(s, n)}]
Due       == [s \in Senders |-> {n \in 1..Len(sent[s]) : ~Oversize(s, n) /\ ("F31" \in Deviations => ~Collateral(s, n))}]

AllOut == \A s \in Senders : sq[s] = <<>> /\ opkt[s] = <<>>
Quiet  == AllOut /\ NetEmpty
\* nothing is enabled any more
Done   == AllOut /\ rxq = <<>> /\ (\A s \in Senders : Len(sent[s]) = MaxMsgs /\ \A k \in 1..Len(pk[s]) : ~CanTake(s, k))

PerfectInOrder           == (Faults = {}) => InOrderSoFar(Due)
PerfectExactlyOnce       == (Faults = {} /\ Quiet) => ExactlyOnceInOrder(Due)
PerfectExactlyOnceStrict == (Faults = {} /\ Quiet) => ExactlyOnceInOrder(DueStrict)     \* the property as stated: fails with the deviation "F31"
\* without duplication nothing is handed over twice (not claimed by the property text; checked because the design intends it)
RECURSIVE NoRepeat(_)
NoRepeat(q) == IF q = <<>> THEN TRUE ELSE (\A i \in 1..Len(Tail(q)) : Tail(q)[i] # Head(q) \/ Head(q).size = 0) /\ NoRepeat(Tail(q))
AtMostOnceWithoutDup == ("Dup" \notin Faults) => NoRepeat(delivered)

\* simulation mode: print the behaviour when it is complete
PrintDone == (HIST /\ Done) => PrintT("@@" \o ToJson(hist))
=============================================================================
