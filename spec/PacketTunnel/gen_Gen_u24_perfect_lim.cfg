SPECIFICATION Spec
CONSTANTS
  Senders = {1}
  MaxIn = 2
  Faults = {}
  MaxCopies = 2
  Sizes = {0, 1, 3}
  MaxMsgs = 3
  H = 1
  MTUs = {6}
  IDSPACE = 8
  FirstID = 7
  OutModes = {"all", "one", "hold"}
  Deviations = {"F31"}
  RECORD = TRUE
  HIST = FALSE
INVARIANTS TypeOK
