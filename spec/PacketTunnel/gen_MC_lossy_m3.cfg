SPECIFICATION Spec
CONSTANTS
  Senders = {1}
  MaxIn = 99
  Faults = {"Lose", "Dup", "Reorder"}
  MaxCopies = 2
  Sizes = {0, 1, 2, 3}
  MaxMsgs = 3
  H = 1
  MTUs = {3}
  IDSPACE = 8
  FirstID = 7
  OutModes = {"all"}
  Deviations = {"F31"}
  RECORD = FALSE
  HIST = FALSE
INVARIANTS TypeOK NeverDeliversUnsent WithinMTU PerfectInOrder PerfectExactlyOnce AtMostOnceWithoutDup
PROPERTIES AbsRefines
