----------------------------- MODULE MiniTunImpl -----------------------------
(***************************************************************************)
(* iogateway/MiniPacketTunnelIOGateway.cpp as coded: no fragmentation, a   *)
(* packet = packet header (magic, source-exclusion id, compression level   *)
(* << 24 | 24-bit packet id) + chunks (size, bytes), each chunk one whole   *)
(* Message; a Message that cannot fit into a packet of its own is dropped   *)
(* by the sender ("too-large Messages will be dropped", class comment);     *)
(* the payload after the packet header is optionally zlib-deflated, per     *)
(* packet, and the level byte of the header tells the receiver.             *)
(* The receiver keeps no state: every chunk of a packet is handed over.     *)
(* Sizes are in units; PH units = the real 12-byte packet header, CH units  *)
(* = the real 4-byte chunk header (the harness maps a unit to 4 / CH bytes).*)
(***************************************************************************)
EXTENDS Net, TLC, Json

CONSTANTS Sizes, MaxMsgs,
          PH, CH,      \* packet header / chunk header size
          MTUs,        \* the maximum transfer units to check, each >= PH + CH + 1 (one is chosen at the start)
          PIDSPACE,    \* packet ids are counted modulo PIDSPACE (2^24 in the code)
          FirstPID,
          Levels,      \* compression levels the sender may be set to before a DoOutput call (0 = none)
          OutModes,    \* subset of {"all", "one", "hold"} as in TunImpl
          Compressible,\* TRUE: the Messages' bytes are chosen so that deflating a payload with a non-empty chunk makes it shorter;
                       \* FALSE: so that it never does (then the code sends the payload as it is and clears the level byte)
          Deviations,  \* named deviations from the code as it is (all off by default; each makes an invariant fail: vacuity guards):
                       \* "F32"   the code as it WAS before repair c677f19: the level byte of the header is written when the packet is BEGUN
                       \*         and cleared IN THE HELD BUFFER when an attempt to deflate does not help, while the payload is deflated
                       \*         according to the level set, and the chunks present, when the packet is finally WRITTEN.  For a packet
                       \*         that was held (Write() returned 0) the two can disagree - the level was changed meanwhile, or deflating
                       \*         began to help after more chunks were added - and then the receiver can use nothing of the packet.
                       \*         Without "F32" (the code now): the level byte is written with the packet and says what was done to the payload
                       \* "blind" spec mutant: the receiver ignores the level byte
                       \* "srconce" spec mutant: every packet read by one DoInput() call is attributed to the source of the first one
          RECORD, HIST

ASSUME (\A m \in MTUs : m >= PH + CH + 1) /\ FirstPID \in 0..(PIDSPACE - 1)

VARIABLES sq,    \* [Senders -> Seq([n, size])]: outgoing queue
          opkt,  \* [Senders -> Seq([n, size])]: chunks of the packet under construction (kept between calls only if Write() returned 0)
          ohl,   \* [Senders -> level]: the level written into the header of the packet under construction
          pid,   \* [Senders -> 0..PIDSPACE-1]: _sendPacketIDCounter
          ndrop, \* [Senders -> set of n]: Messages the sender dropped as too large
          mtu,   \* the constructor argument maxTransferUnit (constant during a behaviour)
          last, hist

vars == <<sent, delivered, pk, cnt, rxq, sq, opkt, ohl, pid, ndrop, mtu, last, hist>>

Init == /\ AbsInit /\ NetInit
        /\ sq = [s \in Senders |-> <<>>] /\ opkt = [s \in Senders |-> <<>>] /\ ohl = [s \in Senders |-> 0] /\ pid = [s \in Senders |-> FirstPID]
        /\ ndrop = [s \in Senders |-> {}]
        /\ mtu \in MTUs
        /\ last = [a |-> "Init"] /\ hist = <<>>

Rec(r) == /\ mtu' = mtu
          /\ last' = IF RECORD THEN r ELSE last
          /\ hist' = IF HIST THEN Append(hist, r) ELSE hist

RECURSIVE ChunkBytes(_)
ChunkBytes(p) == IF p = <<>> THEN 0 ELSE CH + Head(p).size + ChunkBytes(Tail(p))
Written(p)    == IF p = <<>> THEN 0 ELSE PH + ChunkBytes(p)        \* flat.GetNumBytesWritten()

\* Step 1: add whole Messages while they fit; drop what can never fit.  lvl = _sendCompressionLevel during this call
RECURSIVE Fill(_, _)
Fill(st, lvl) ==
    IF st.q = <<>> THEN st
    ELSE LET m == Head(st.q) IN
         IF PH + CH + m.size > mtu THEN Fill([st EXCEPT !.q = Tail(@), !.drop = @ \cup {m.n}], lvl)
         ELSE IF Written(st.pkt) + (IF st.pkt = <<>> THEN PH ELSE 0) + CH + m.size <= mtu
              THEN Fill([st EXCEPT !.q = Tail(@), !.pkt = Append(@, m), !.hl = IF st.pkt = <<>> THEN lvl ELSE @], lvl)   \* the header is written with the first chunk
              ELSE st
\* Step 2: deflate if the level is set now and it helps; what goes on the wire
Eff(chunks) == Compressible /\ \E i \in 1..Len(chunks) : chunks[i].size > 0
Wire(st, lvl) == LET z == lvl > 0 /\ Eff(st.pkt)
                 IN [pid |-> st.id, z |-> z, chunks |-> st.pkt,
                     hl |-> IF "F32" \in Deviations THEN (IF lvl > 0 /\ ~z THEN 0 ELSE st.hl)   \* only the not-deflated branch patches the header
                                                    ELSE (IF z THEN lvl ELSE 0)]
RECURSIVE Drain(_, _, _)
Drain(st, out, lvl) == LET f == Fill(st, lvl) IN
    IF f.pkt = <<>> THEN [st |-> f, out |-> out]
    ELSE Drain([f EXCEPT !.pkt = <<>>, !.id = (@ + 1) % PIDSPACE], Append(out, Wire(f, lvl)), lvl)

Send(s, z) ==
    /\ Len(sent[s]) < MaxMsgs /\ z \in Sizes
    /\ AbsSend(s, z)
    /\ sq' = [sq EXCEPT ![s] = Append(@, [n |-> Len(sent[s]) + 1, size |-> z])]
    /\ NetIdle /\ UNCHANGED <<opkt, ohl, pid, ndrop>>
    /\ Rec([a |-> "Send", s |-> s, z |-> z, n |-> Len(sent[s]) + 1])

\* SetZLibCompressionLevel(lvl); DoOutput() - the three ways of TunImpl
Out(s, mode, lvl) ==
    /\ mode \in OutModes /\ lvl \in Levels
    /\ sq[s] # <<>> \/ opkt[s] # <<>>
    /\ LET st0 == [q |-> sq[s], pkt |-> opkt[s], hl |-> ohl[s], id |-> pid[s], drop |-> ndrop[s]]
           all == Drain(st0, <<>>, lvl)
           f   == Fill(st0, lvl)
           r   == CASE mode = "all"  -> all
                    [] mode = "one"  -> IF f.pkt = <<>> THEN [st |-> f, out |-> <<>>]
                                        ELSE [st |-> [f EXCEPT !.pkt = <<>>, !.id = (@ + 1) % PIDSPACE], out |-> <<Wire(f, lvl)>>]
                    \* the write is attempted: the level byte of the buffer that stays behind is cleared if deflating did not help
                    [] mode = "hold" -> [st |-> [f EXCEPT !.hl = IF lvl > 0 /\ ~Eff(f.pkt) THEN 0 ELSE @], out |-> <<>>]
       IN /\ (mode = "one"  => r # all)
          /\ (mode = "hold" => r.st # st0 /\ r.st.pkt # <<>>)
          /\ sq' = [sq EXCEPT ![s] = r.st.q] /\ opkt' = [opkt EXCEPT ![s] = r.st.pkt]
          /\ ohl' = [ohl EXCEPT ![s] = IF r.st.pkt = <<>> THEN 0 ELSE r.st.hl]
          /\ pid' = [pid EXCEPT ![s] = r.st.id] /\ ndrop' = [ndrop EXCEPT ![s] = r.st.drop]
          /\ NetWrite(s, r.out)
          /\ Rec([a |-> "Out", s |-> s, mode |-> mode, lvl |-> lvl, pkts |-> r.out,
                  pid |-> r.st.id, held |-> Written(r.st.pkt), left |-> Len(r.st.q), dropped |-> r.st.drop \ ndrop[s]])
    /\ UNCHANGED <<sent, delivered>>

\* DoInput() with one copy of packet k of sender s waiting
\* level byte > 0: inflate (fails on a plain payload); level byte 0: parse as it is (a deflated payload gives an impossible chunk size)
Usable(p)    == IF "blind" \in Deviations THEN ~p.z ELSE (p.hl > 0) = p.z
\* the Messages of packet p written by sender s, attributed to source address a (a = s in the code as it is)
Handed(a, s, p) == IF ~Usable(p) THEN <<>>
                   ELSE [i \in 1..Len(p.chunks) |-> [s |-> a, size |-> p.chunks[i].size, buf |-> Content(s, p.chunks[i].n, p.chunks[i].size)]]
\* one DoInput() call reads the packets of `batch` one after the other
RECURSIVE HandedBatch(_, _)
HandedBatch(batch, i) == IF i > Len(batch) THEN <<>>
                         ELSE Handed(IF "srconce" \in Deviations THEN batch[1].s ELSE batch[i].s, batch[i].s, pk[batch[i].s][batch[i].k]) \o HandedBatch(batch, i + 1)
Deliver(s, k) ==
    /\ CanTake(s, k) /\ NetTake(s, k)
    /\ delivered' = delivered \o HandedBatch(Batch(s, k), 1)
    /\ Rec([a |-> "Deliver", s |-> s, k |-> k, fault |-> Fault(s, k), waiting |-> Len(rxq), dl |-> HandedBatch(Batch(s, k), 1)])
    /\ UNCHANGED <<sent, sq, opkt, ohl, pid, ndrop>>
Arrive(s, k) ==
    /\ CanWait(s, k) /\ NetWait(s, k)
    /\ Rec([a |-> "Arrive", s |-> s, k |-> k, fault |-> Fault(s, k)])
    /\ UNCHANGED <<sent, delivered, sq, opkt, ohl, pid, ndrop>>
ReadWaiting ==
    /\ rxq # <<>> /\ NetDrain
    /\ delivered' = delivered \o HandedBatch(rxq, 1)
    /\ Rec([a |-> "Drain", s |-> rxq[1].s, dl |-> HandedBatch(rxq, 1)])
    /\ UNCHANGED <<sent, sq, opkt, ohl, pid, ndrop>>

\* which packet is handed over next is the network's choice
Receive(s) == \E k \in 1..Len(pk[s]) : Deliver(s, k) \/ Arrive(s, k)

Next == \/ ReadWaiting
        \/ \E s \in Senders :
           \/ \E z \in Sizes : Send(s, z)
           \/ \E m \in {"all", "one", "hold"}, l \in Levels : Out(s, m, l)
           \/ Receive(s)
Spec == Init /\ [][Next]_vars

------------------------------------------------------------------------------
(* The property *)
TypeOK     == \A s \in Senders : pid[s] \in 0..(PIDSPACE - 1) /\ Len(cnt[s]) = Len(pk[s])
AbsRefines == [][AbsStep]_<<sent, delivered>>
WithinMTU  == \A s \in Senders : \A k \in 1..Len(pk[s]) : Written(pk[s][k].chunks) <= mtu /\ pk[s][k].chunks # <<>>
\* "fits the gateway's limits": the Message fits into a packet of its own (DueStrict, the property as stated; with the
\* deviation "F32" also: does not travel in a packet whose level byte disagrees with its payload)
Fits(s, n)   == PH + CH + sent[s][n] <= mtu
Garbled(s,n) == \E k \in 1..Len(pk[s]) : ((pk[s][k].hl > 0) # pk[s][k].z) /\ \E i \in 1..Len(pk[s][k].chunks) : pk[s][k].chunks[i].n = n
DueStrict  == [s \in Senders |-> {n \in 1..Len(sent[s]) : Fits(s, n)}]
Due        == [s \in Senders |-> {n \in 1..Len(sent[s]) : Fits(s, n) /\ ("F32" \in Deviations => ~Garbled(s, n))}]
\* the sender drops exactly the Messages that are not due
DropsOnlyTooLarge == \A s \in Senders : ndrop[s] \subseteq ((1..Len(sent[s])) \ DueStrict[s])
AllOut == \A s \in Senders : sq[s] = <<>> /\ opkt[s] = <<>>
Quiet  == AllOut /\ NetEmpty
Done   == AllOut /\ rxq = <<>> /\ (\A s \in Senders : Len(sent[s]) = MaxMsgs /\ \A k \in 1..Len(pk[s]) : ~CanTake(s, k))
PerfectInOrder     == (Faults = {}) => InOrderSoFar(Due)
PerfectExactlyOnce == (Faults = {} /\ Quiet) => ExactlyOnceInOrder(Due)
PerfectExactlyOnceStrict == (Faults = {} /\ Quiet) => ExactlyOnceInOrder(DueStrict)    \* the property as stated: fails with the deviation "F32"
PrintDone == (HIST /\ Done) => PrintT("@@" \o ToJson(hist))
=============================================================================
