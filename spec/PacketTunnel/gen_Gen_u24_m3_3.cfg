SPECIFICATION Spec
CONSTANTS
  Senders = {1}
  MaxIn = 99
  Faults = {"Lose", "Dup", "Reorder"}
  MaxCopies = 2
  Sizes = {0, 1, 3}
  MaxMsgs = 3
  H = 1
  MTUs = {3}
  IDSPACE = 8
  FirstID = 7
  OutModes = {"all"}
  Deviations = {"F31"}
  RECORD = TRUE
  HIST = FALSE
INVARIANTS TypeOK
