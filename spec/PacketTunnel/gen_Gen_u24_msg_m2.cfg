SPECIFICATION Spec
CONSTANTS
  Senders = {1}
  MaxIn = 99
  Faults = {"Lose", "Dup", "Reorder"}
  MaxCopies = 2
  Sizes = {2, 3}
  MaxMsgs = 2
  H = 1
  MTUs = {2}
  IDSPACE = 8
  FirstID = 7
  OutModes = {"all"}
  Deviations = {"F31"}
  RECORD = TRUE
  HIST = FALSE
INVARIANTS TypeOK
