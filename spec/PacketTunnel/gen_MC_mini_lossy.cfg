SPECIFICATION Spec
CONSTANTS
  Senders = {1}
  MaxIn = 0
  Faults = {"Lose", "Dup", "Reorder"}
  MaxCopies = 2
  Sizes = {0, 10, 20, 30}
  MaxMsgs = 3
  PH = 12
  CH = 4
  MTUs = {40}
  PIDSPACE = 4
  FirstPID = 3
  Levels = {0, 6}
  OutModes = {"all", "hold"}
  Compressible = TRUE
  Deviations = {"F32"}
  RECORD = FALSE
  HIST = FALSE
INVARIANTS TypeOK NeverDeliversUnsent WithinMTU PerfectInOrder PerfectExactlyOnce DropsOnlyTooLarge
PROPERTIES AbsRefines
