--------------------------------- MODULE Net ---------------------------------
(***************************************************************************)
(* The datagram transport between the tunnels.  Every packet a sender      *)
(* wrote stays identified by (sender, index k); the network is the         *)
(* multiset of the copies it may still hand over: packet k can be handed   *)
(* to the receiver while it has been handed over fewer than MaxCopies      *)
(* times.  A packet that is never handed over was LOST, one handed over    *)
(* more than once was DUPLICATED, one handed over after a later one was    *)
(* REORDERED.  (Explicit Lose / Dup steps were measured to multiply the    *)
(* state space by 5^packets / 3^packets without adding a single receiver   *)
(* input sequence, so loss and duplication are read off the counts.)       *)
(* Faults selects the fault classes; Faults = {} is the perfect network:   *)
(* every packet exactly once, in the order written (per sender).           *)
(***************************************************************************)
EXTENDS TunAbs

CONSTANTS Faults,     \* subset of {"Lose", "Dup", "Reorder"}
          MaxCopies,  \* bound on the number of times one packet is handed over when "Dup" \in Faults
          MaxBatch    \* how many packets (of any senders) may wait in the receiver's socket for ONE DoInput() call (1 = a call per packet)

VARIABLES pk,   \* [Senders -> Seq(packet)]: everything sender s wrote to its PacketDataIO, in order
          cnt,  \* [Senders -> Seq(Nat)]: how often packet k has been handed to the receiver
          rxq   \* packets [s, k] that have arrived in the receiver's socket and wait for the next DoInput() call, in arrival order

NetInit == pk = [s \in Senders |-> <<>>] /\ cnt = [s \in Senders |-> <<>>] /\ rxq = <<>>

NetWrite(s, ps) == /\ pk' = [pk EXCEPT ![s] = @ \o ps]
                   /\ cnt' = [cnt EXCEPT ![s] = @ \o [i \in 1..Len(ps) |-> 0]]
                   /\ UNCHANGED rxq
NetIdle == UNCHANGED <<pk, cnt, rxq>>

\* highest index handed over so far (0 = none)
RECURSIVE TopFrom(_, _)
TopFrom(c, k) == IF k = 0 THEN 0 ELSE IF c[k] > 0 THEN k ELSE TopFrom(c, k - 1)
Top(s) == TopFrom(cnt[s], Len(cnt[s]))

CanTake(s, k) == /\ k \in 1..Len(pk[s])
                 /\ cnt[s][k] < (IF "Dup" \in Faults THEN MaxCopies ELSE 1)
                 /\ ("Lose" \in Faults \/ k <= Top(s) + 1)                    \* nothing skipped for good
                 /\ ("Reorder" \in Faults \/ k >= Top(s))                     \* nothing older than the newest handed over
\* packet k of s arrives and the receiver calls DoInput(): the call reads everything that waits, then this packet
NetTake(s, k) == cnt' = [cnt EXCEPT ![s][k] = @ + 1] /\ rxq' = <<>> /\ UNCHANGED pk
Batch(s, k)   == Append(rxq, [s |-> s, k |-> k])
\* packet k of s arrives and waits (no call yet)
CanWait(s, k) == CanTake(s, k) /\ Len(rxq) + 1 < MaxBatch
NetWait(s, k) == cnt' = [cnt EXCEPT ![s][k] = @ + 1] /\ rxq' = Append(rxq, [s |-> s, k |-> k]) /\ UNCHANGED pk
\* DoInput() without a new arrival
NetDrain      == rxq' = <<>> /\ UNCHANGED <<pk, cnt>>
\* what the step is called in the fault schedule
Fault(s, k)   == IF cnt[s][k] > 0 THEN "dup" ELSE IF k < Top(s) THEN "reorder" ELSE IF k > Top(s) + 1 THEN "skip" ELSE "none"
\* nothing more can or must arrive
NetEmpty      == rxq = <<>> /\ \A s \in Senders : \A k \in 1..Len(pk[s]) : cnt[s][k] >= 1
=============================================================================
