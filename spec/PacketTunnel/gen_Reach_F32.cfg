SPECIFICATION Spec
CONSTANTS
  Senders = {1}
  MaxIn = 0
  Faults = {}
  MaxCopies = 2
  Sizes = {0, 20}
  MaxMsgs = 2
  PH = 12
  CH = 4
  MTUs = {60}
  PIDSPACE = 4
  FirstPID = 3
  Levels = {0, 6}
  OutModes = {"all", "one", "hold"}
  Compressible = TRUE
  Deviations = {"F32"}
  RECORD = FALSE
  HIST = FALSE
INVARIANTS PerfectExactlyOnceStrict
