INIT GenInit
NEXT GenNext
CONSTANTS
  Pairs = "all"
