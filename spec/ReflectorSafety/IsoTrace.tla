------------------------------- MODULE IsoTrace -------------------------------
(* C06, code -> spec: seeded random hostile histories run by harness/srv.cpp (any of the three sessions issues any command of  *)
(* the menu; departures, half of them in the middle of a Message) are validated against Isolation.tla: every line is one step  *)
(* (the command by its index in MenuSeq, or a departure) followed by the WHOLE observed state - tree, indices, subscriber      *)
(* marks, parameters, subscriptions, connected sessions, client mirrors - which must equal the state the specification's       *)
(* action produces.  Executions are concatenated with {"a":"Reset"} lines.  The same module dumps the menu (MenuDump).          *)
EXTENDS Isolation, Json, IOUtils, SequencesExt

VARIABLE l
MenuSeq == SetToSeq(FullMenu)

TraceLog == ndJsonDeserialize(IOEnv.TRACE)
N == Len(TraceLog)
\* (ToSet is SequencesExt's)
Obs(ln) == [tree |-> ToSet(ln.tree), idx |-> ToSet(ln.idx), marks |-> ToSet(ln.marks), params |-> ToSet(ln.params),
            psub |-> ToSet(ln.psub), conn |-> ToSet(ln.conn), mirror |-> ToSet(ln.mirror)]

TraceInit == Init /\ l = 1 /\ TLCSet(1, 0)
TReset == /\ l <= N /\ TraceLog[l].a = "Reset"
          /\ st' = InitWorld /\ n' = 0 /\ who' = "none" /\ kind' = "init" /\ UNCHANGED last /\ l' = l + 1
TCmd   == /\ l <= N /\ TraceLog[l].a = "Cmd"
          /\ LET ln == TraceLog[l] IN
             /\ ln.ci \in 1..Len(MenuSeq) /\ MenuSeq[ln.ci].op = ln.op
             /\ DoCmd(ln.who, MenuSeq[ln.ci])
             /\ Flat(st') = Obs(ln)
          /\ l' = l + 1
TDepart == /\ l <= N /\ TraceLog[l].a = "Depart"
           /\ Depart(TraceLog[l].who) /\ Flat(st') = Obs(TraceLog[l])
           /\ l' = l + 1
TraceNext == TReset \/ TCmd \/ TDepart
TraceSpec == TraceInit /\ [][TraceNext]_<<vars, l>>

\* "violated" = the whole trace was explained by the specification
NotAccepted == l <= N
Track == TLCSet(1, IF TLCGet(1) > l THEN TLCGet(1) ELSE l)
Report == PrintT(<<"maxline", TLCGet(1), "of", N>>)

\* ---- diagnosis of a rejected trace (IsoTraceDbg.cfg): the same walk, but a difference is printed instead of ending the walk
TwoWay(a, b) == [onlyModel |-> a \ b, onlyObserved |-> b \ a]
Diff(f, o) == [tree |-> TwoWay(f.tree, o.tree), idx |-> TwoWay(f.idx, o.idx), marks |-> TwoWay(f.marks, o.marks), params |-> TwoWay(f.params, o.params),
               psub |-> TwoWay(f.psub, o.psub), conn |-> TwoWay(f.conn, o.conn), mirror |-> TwoWay(f.mirror, o.mirror)]
DCmd   == /\ l <= N /\ TraceLog[l].a = "Cmd"
          /\ LET ln == TraceLog[l] IN
             /\ DoCmd(ln.who, MenuSeq[ln.ci])
             /\ (IF Flat(st') = Obs(ln) THEN TRUE ELSE PrintT("@@" \o ToJson([line |-> l, h |-> ln.h, k |-> ln.k, who |-> ln.who, cmd |-> MenuSeq[ln.ci], diff |-> Diff(Flat(st'), Obs(ln))])))
          /\ l' = l + 1
DDepart == /\ l <= N /\ TraceLog[l].a = "Depart"
           /\ Depart(TraceLog[l].who)
           /\ (IF Flat(st') = Obs(TraceLog[l]) THEN TRUE ELSE PrintT("@@" \o ToJson([line |-> l, h |-> TraceLog[l].h, k |-> TraceLog[l].k, who |-> TraceLog[l].who, cmd |-> "Depart", diff |-> Diff(Flat(st'), Obs(TraceLog[l]))])))
           /\ l' = l + 1
DbgSpec == TraceInit /\ [][TReset \/ DCmd \/ DDepart]_<<vars, l>>

\* ---- menu dump: the harness draws its random commands from this list
DumpInit == /\ Init /\ l = 0
            /\ PrintT("@@" \o ToJson([menu |-> MenuSeq, init |-> Flat(InitWorld), priv |-> PrivCases]))
DumpNext == UNCHANGED <<vars, l>>
=============================================================================
