----------------------------- MODULE HostileSpace -----------------------------
(***************************************************************************************************************)
(* C07 - the space of Messages the property quantifies over ("whatever Messages a connected client sends: any     *)
(* what-code, any fields, any patterns and filters"), enumerated by TLC and written as ndjson for harness/srv.cpp: *)
(*   what-code  in  every PR_COMMAND_* of reflector/StorageReflectConstants.h (1..32 above BEGIN_PR_COMMANDS,      *)
(*                  reserved ones included) and out-of-range codes (0, a client-to-client code, the two guard      *)
(*                  values, a PR_RESULT_* code, 0xFFFFFFFF)                                                        *)
(*   x  a set of fields: none, every single reserved field name, PR_NAME_KEYS x PR_NAME_FILTERS, and (Pairs =      *)
(*      "all") every pair of different field names                                                                *)
(*   x  the value of each field: of the right type (string fields run through the pattern menu with the C15        *)
(*      metacharacters, filter fields through the archive menu - valid archives and archives damaged as in C14's    *)
(*      hostile set), of a wrong type, empty, several items.                                                       *)
(* A field is [n |-> name, sh |-> shape of the value, a |-> argument]; the harness expands (sh, a) into real data.  *)
(***************************************************************************************************************)
EXTENDS Integers, Sequences, FiniteSets, TLC, Json, IOUtils, SequencesExt

CONSTANTS Pairs      \* "kf" (only keys x filters) | "all" (every pair of different field names, reduced value sets)

Base == 558916400                                   \* BEGIN_PR_COMMANDS
Commands == {Base + k : k \in 1..32}                \* PR_COMMAND_SETPARAMETERS .. PR_COMMAND_RESERVED32
OutOfRange == {0, 1234, Base, Base + 33, 558920242, -1}     \* (-1 = 0xFFFFFFFF; 558920242 = PR_RESULT_DATAITEMS)
Whats == Commands \cup OutOfRange

\* patterns: the wildcard syntax (C15) and the path syntax, well-formed and not
PatMenu == {"*", "a", "a/*", "/*/*/*", "*/*/*/*", "[", "(a", "a,b", "~a", "<1-2>", "\\", "a\\", "`(a*)*b", "", "/", "//", "a//b", "*/..", "<",
            "((((a))))", "[a-", "a|b", "????????", "*a*a*a*a*a*a*b",
            \* degenerate clauses: patterns that leave nothing to compile or to match with (they reach matchers recycled from earlier, ordinary queries)
            "`", "~", "~`", "/*/*/`", "`/a", "<0-99999999999999999999>", "<5-", "a)", "]", "\\/\\"}
\* archived query filters: valid ones, and damaged ones (what-code not a filter's, field missing / retyped, nested 200 deep)
FiltMenu == {"what1", "what2", "string", "int", "and2", "and-nested3", "msgfilter", "not-a-filter", "what-retyped", "and-kid-missing", "and-kid-retyped", "nest200"}

\* value-bearing filters: EVERY operator of the class (and one past its guard value) x a value that is empty / shorter than / as long as / longer than the
\* field it is compared with x a node field that is short or empty (the prelude gives every node: raw = 3 bytes, raw0 = 0 bytes, f = "abc", s0 = "", i = two int32s)
ValueFilts == {"v:raw:" \o ToString(op) \o ":" \o ToString(len) \o ":" \o fld : op \in 0..12, len \in {0, 2, 3, 5}, fld \in {"raw", "raw0"}}
              \cup {"v:str:" \o ToString(op) \o ":" \o ToString(len) \o ":" \o fld : op \in 0..28, len \in {0, 2, 3, 5}, fld \in {"f", "s0"}}
              \cup {"v:i32:" \o ToString(op) \o ":" \o ToString(idx) \o ":i" : op \in 0..6, idx \in {0, 1, 5}}

V(sh, a) == <<sh, a>>
WrongVals == {V("i64", "-1"), V("raw", "8")}
PatVals   == {V("str", p) : p \in PatMenu} \cup {V("strs", "3")} \cup WrongVals \cup {V("msg", "empty")}
FiltVals  == {V("filt", f) : f \in FiltMenu} \cup {V("filts", "3")} \cup {V("str", "x"), V("i32", "5"), V("msg", "empty")}
FlagVals  == {V("bool", "1"), V("str", ""), V("msg", "empty"), V("i32s", "0")}
IntVals   == {V("i32", v) : v \in {"0", "1", "-1", "2147483647", "100"}} \cup {V("str", "5"), V("i64", "-1"), V("i32s", "1"), V("raw", "0")}
EncVals   == {V("i32", v) : v \in {"1164862256", "1164862257", "1164862265", "1164862266", "0", "-1"}} \cup {V("str", "5"), V("raw", "0")}
StrVals   == {V("str", "17"), V("str", ""), V("i32", "7"), V("strs", "3")}
FlagsVals == {V("flags", b) : b \in {"0", "1", "2", "4", "8", "16", "31"}} \cup {V("i32", "8"), V("i32", "-1"), V("str", "x"), V("raw", "0"), V("raw", "8")}
KeysVals  == PatVals \cup {V("cmds", c) : c \in {"jr-filter", "nest50", "nest150", "mixed", "self-similar"}}
DataVals  == {V("data", "small"), V("data", "big")}

\* field name -> its value set
FieldVals == [n \in {"!SnKy", "!SnFl", "!SnRd", "!SnQs", "!SnQ3", "!SnQ4", "!Self", "!G2N", "!N2G", "!Dsub", "!MxUp", "!Ksec", "!Priv", "session", "SUBSCRIBE:*", "!TRid", "!Enc", "!MDep", "!Rmv", "x"} |->
               CASE n = "!SnKy" -> KeysVals [] n = "!SnFl" -> FiltVals [] n \in {"!SnRd", "!TRid"} -> PatVals
                 [] n \in {"!SnQs", "!SnQ3", "!Self", "!G2N", "!N2G", "!Dsub"} -> FlagVals
                 [] n = "!SnQ4" -> FlagsVals [] n \in {"!MxUp", "!Ksec", "!Priv", "!MDep"} -> IntVals [] n = "!Enc" -> EncVals
                 [] n = "session" -> StrVals [] n = "SUBSCRIBE:*" -> FiltVals \cup FlagVals
                 [] n = "!Rmv" -> {V("str", "a"), V("msg", "empty")} [] n = "x" -> {V("str", "y"), V("msg", "empty")}]
Fld(n, v) == [n |-> n, sh |-> v[1], a |-> v[2]]
\* fields whose NAME is a pattern / a node path: SUBSCRIBE:<pattern> parameters and data fields
NamedFields == {Fld("SUBSCRIBE:" \o p, V("bool", "1")) : p \in PatMenu} \cup {Fld(p, v) : p \in PatMenu \ {""}, v \in DataVals}
Singles == NamedFields \cup UNION {{Fld(n, v) : v \in FieldVals[n]} : n \in DOMAIN FieldVals}

\* reduced value sets for the all-pairs part: right / wrong / empty / several
Reduced(n) == LET vs == FieldVals[n] IN
              {v \in vs : v[1] \in {"strs", "filts", "i32s", "i64", "raw"}} \cup {V("msg", "empty")}
              \cup (IF n \in {"!SnKy", "!SnRd", "!TRid"} THEN {V("str", "*"), V("str", "["), V("str", "")} ELSE {})
              \cup (IF n \in {"!SnFl", "SUBSCRIBE:*"} THEN {V("filt", "what1"), V("filt", "and-kid-retyped")} ELSE {})
              \cup (IF n = "!SnKy" THEN {V("cmds", "mixed")} ELSE {})
              \cup {v \in vs : v = V("bool", "1") \/ v = V("i32", "1") \/ v = V("i32", "-1") \/ v = V("flags", "8") \/ v = V("str", "17")}
KF == {<<Fld("!SnKy", V("str", p)), Fld("!SnFl", V("filt", f))>> : p \in PatMenu, f \in FiltMenu}
      \cup {<<Fld("!SnKy", V("str", "*")), Fld("!SnFl", V("filt", f))>> : f \in ValueFilts}
AllPairs == UNION {{<<Fld(n1, v1), Fld(n2, v2)>> : v1 \in Reduced(n1) \cap FieldVals[n1], v2 \in Reduced(n2) \cap FieldVals[n2]} : <<n1, n2>> \in {p \in (DOMAIN FieldVals) \X (DOMAIN FieldVals) : p[1] # p[2]}}
FieldSets == {<<>>} \cup {<<f>> : f \in Singles} \cup KF \cup (IF Pairs = "all" THEN AllPairs ELSE {})

CaseSet == {[what |-> w, f |-> fs] : w \in Whats, fs \in FieldSets}
Cases == LET cs == SetToSeq(CaseSet) IN [i \in DOMAIN cs |-> [id |-> i, what |-> cs[i].what, f |-> cs[i].f]]

\* the enumeration really is the product it claims to be
ASSUME Cardinality(Whats) = 38 /\ Cardinality(PatMenu) = 34 /\ Cardinality(FiltMenu) = 12
ASSUME \A w \in Whats : \E c \in CaseSet : c.what = w /\ c.f = <<>>
ASSUME \A n \in DOMAIN FieldVals : \A v \in FieldVals[n] : \A w \in {Base + 1, 1234} : [what |-> w, f |-> <<Fld(n, v)>>] \in CaseSet

\* What every sender has done BEFORE the hostile Messages start (ordinary commands; the hostile ones then hit a tree with these shapes, and every server life ends
\* with the removal of these nodes by one sender and the departure of the other): nodes with indexed AND plain children, a child taken out of its parent's index
\* but kept, an index created by REORDERDATA on a plain node, an index that has become empty again
P(op, p, x) == [pre |-> op, p |-> p, x |-> x]
Prelude == <<P("SETDATA", "m", ""), P("INSERTORDEREDDATA", "m", "zz"), P("INSERTORDEREDDATA", "m", "I0"), P("SETDATA", "m/plain", ""), P("SETDATA", "m/plain/deep", ""),
             P("SETDATA", "e/x", ""), P("SETDATA", "e/y", ""), P("REORDERDATA", "e/x", "zz"),
             P("SETDATA", "r/I0", "index"), P("SETDATA", "r/I1", "index"), P("REORDERDATA", "r/I0", "!Rmv"),
             P("SETDATA", "z/only", "index"), P("REORDERDATA", "z/only", "!Rmv")>>
Epilogue == <<P("REMOVEDATA", "m", ""), P("REMOVEDATA", "*", "")>>      \* by the second sender; the first one simply departs

VARIABLE done
GenInit == done = (ndJsonSerialize(IOEnv.OUT, <<[prelude |-> Prelude, epilogue |-> Epilogue]>> \o Cases) /\ PrintT("@@" \o ToJson([cases |-> Len(Cases), whats |-> Cardinality(Whats), singles |-> Cardinality(Singles),
                                                                              fieldsets |-> Cardinality(FieldSets), patterns |-> Cardinality(PatMenu), filters |-> Cardinality(FiltMenu)])))
GenNext == UNCHANGED done
=============================================================================
