INIT GenInit
NEXT GenNext
CONSTANTS
  Pairs = "kf"
