SPECIFICATION DbgSpec
CONSTANTS
  MaxSteps = 0
  Deviations = {}
  RECORD = FALSE
  Actors = {"s1", "s2", "s3"}
  MenuKind = "full"
INVARIANTS NotAccepted
