------------------------------- MODULE OQGen -------------------------------
(* C07, spec -> code: every case (queue state, command Message) of OutQueue with the queue the specification ends with, printed as JSON *)
EXTENDS OutQueue, Json
Emit == pc = "done" => PrintT("@@" \o ToJson([q0 |-> q0, cmd |-> cmd, q |-> q]))
=============================================================================
