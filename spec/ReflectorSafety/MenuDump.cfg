INIT DumpInit
NEXT DumpNext
CONSTANTS
  MaxSteps = 0
  Deviations = {}
  RECORD = FALSE
  Actors = {"s1"}
  MenuKind = "full"
