------------------------------- MODULE Isolation -------------------------------
(***************************************************************************************************************)
(* C06 - a session can alter only its own subtree, and leaves no trace when it departs.                         *)
(*                                                                                                               *)
(* A small model of the OBSERVABLE state of a muscle reflect server (reflector/StorageReflectSession.cpp,        *)
(* DataNode.cpp): the node tree (host nodes, session nodes, data nodes: path -> what-code of the payload), the    *)
(* ordered-child indices, per node the subscriber marks (session -> reference count, maintained INCREMENTALLY as  *)
(* the code does: +1 / -1 per subscription on the matching nodes, GetMatchCount() on node creation, wiped on     *)
(* departure), per session its parameters, its SUBSCRIBE: parameters, its connectedness, and the mirror its       *)
(* client has built from the PR_RESULT_DATAITEMS updates.                                                         *)
(*                                                                                                               *)
(* The commands are those of an UNPRIVILEGED session drawn from a hostile menu (Menu below): absolute paths into  *)
(* another session's subtree, ".."-like and empty clauses, wildcards at the host / session level, REMOVEDATA /    *)
(* INSERTORDEREDDATA / REORDERDATA with patterns that match other sessions' nodes from the global root, KICK /    *)
(* ADDBANS / REMOVEBANS / ADDREQUIRES / REMOVEREQUIRES without privilege, forged "session" and privilege-bits      *)
(* fields, SETPARAMETERS / REMOVEPARAMETERS with wildcards, BATCHes of those.  Each command is ONE action (the     *)
(* command and the flush of the updates it causes), modelled as the code handles it: write commands resolve their  *)
(* path from the sender's session node and ignore a leading slash (SETDATA ignores the whole path), privileged     *)
(* commands test the privilege bits, which a client cannot set.                                                    *)
(*                                                                                                               *)
(* The property is at the bottom: Frame (every OTHER session's projection is unchanged by a command), Erase (a     *)
(* departure leaves exactly EraseSession(state, s)), MarksExact, MirrorExact, NoTrace, IdxSound, NoPrivilege.      *)
(* `Deviations` names wrong designs; with one of them switched on TLC must find the corresponding property         *)
(* violated (the check's vacuity guards).                                                                          *)
(***************************************************************************************************************)
EXTENDS Naturals, Sequences, FiniteSets, TLC

CONSTANTS MaxSteps,     \* length of the histories
          Deviations,   \* subset of {"SetDataAbsolute", "RemoveFromGlobalRoot", "KickUnprivileged", "DeepMarksStay", "CutNoNotify", "PrivBitsAccepted", "ReorderFromGlobalRoot",
                        \*            "FilteredMarksStay", "QuietCreateNoMarks", "DeafMarksStay"}
          RECORD,       \* TRUE: `last` describes the step (behaviour generation)
          Actors,       \* the sessions that issue commands (model checking / generation: {"s1"}; trace validation: all)
          MenuKind      \* "full" | "small"

S == {"s1", "s2", "s3"}
HostOf(s) == IF s = "s3" THEN "hB" ELSE "hA"
Root(s) == <<HostOf(s), s>>
RmvTag == "!Rmv"            \* PR_NAME_REMOVE_FROM_INDEX

VARIABLES st,      \* the world: [tree, idx, ctr, born, clock, marks, params, psub, conn, mirror, hush]
          n,       \* steps taken
          who,     \* the session that took the last step ("none" initially)
          kind,    \* "init" | "cmd" | "depart"
          last     \* record of the last step (RECORD = TRUE), else constant
vars == <<st, n, who, kind, last>>

---------------------------------------------------------------------------------------------------------------
(* paths and patterns: sequences of clauses *)
Under(p, q)  == Len(q) >= Len(p) /\ SubSeq(q, 1, Len(p)) = p         \* q is p or below p
Parent(p)    == SubSeq(p, 1, Len(p) - 1)
Leaf(p)      == p[Len(p)]
Owner(p)     == IF Len(p) >= 2 THEN p[2] ELSE "none"
Alts(c)      == CASE c = "a,c" -> {"a", "c"} [] c = "s2,s3" -> {"s2", "s3"}
                  [] c = "q\\(1\\)" -> {"q(1)"}          \* a literal clause whose token characters are escaped (EscapeRegexTokens) matches the name itself
                  [] OTHER -> {c}
CM(c, name)  == c = "*" \/ name \in Alts(c)                           \* a clause: "*", a comma list of literals, or a literal
Match(pat, p) == Len(pat) = Len(p) /\ \A i \in 1..Len(p) : CM(pat[i], p[i])
\* a path string without leading slash gets the default prefix (subscriptions, KICK, GETDATA ...)
Fix(x) == IF x.abs THEN x.p ELSE <<"*", "*">> \o x.p
\* a subscription is [abs, p, f]: its path and its QueryFilter (f = 0: none; f = w: a WhatCodeQueryFilter, the payload's what-code must be w).
\* The MARKS are by path only - the filter is applied when a change is notified, and when the matching nodes are first sent
Subs(w, s) == {Fix(x) : x \in w.psub[s]}
Cnt(w, s, p) == Cardinality({pat \in Subs(w, s) : Match(pat, p)})     \* NodePathMatcher::GetMatchCount(node, NULL)
HasFilt(w, s) == \E x \in w.psub[s] : x.f # 0                        \* _subscriptions.GetNumFilters() > 0
\* NodePathMatcher::MatchesNode(node, payload): some subscription matches the path and its filter accepts the payload (no payload given: any filter accepts)
MN(w, s, p, have, pay) == \E x \in w.psub[s] : Match(Fix(x), p) /\ (x.f = 0 \/ ~have \/ x.f = pay)
Sel(w, s, p) == Owner(p) # s /\ MN(w, s, p, TRUE, w.tree[p])         \* p is selected for s's client (own nodes are the client's own business)

---------------------------------------------------------------------------------------------------------------
(* elementary changes of the world, as DataNode / StorageReflectSession perform them *)
NotifySet(w, p, by) == {s \in w.conn : w.marks[p][s] > 0 /\ s # by}   \* NotifySubscribersThatNodeChanged (no reflect-to-self)

\* PR_NAME_DISABLE_SUBSCRIPTIONS ("if set as a parameter, disable all subscription updates"): the session's marks exist as usual, but nothing is sent to it; what it
\* misses is not re-sent when the parameter is removed (the documentation is silent: its mirror simply lags - hush - until later changes reach it)
Deaf(w, s) == \E e \in w.params[s] : e[1] = "!Dsub"
\* StorageReflectSession::NodeChanged for a payload change: what session s is sent - "set", "rem" (the node stopped passing its filters) or nothing
SetOutcome(w, s, p, oldHave, old, new) ==
    IF ~HasFilt(w, s) THEN "set"
    ELSE LET mb == MN(w, s, p, oldHave, old)  mn == MN(w, s, p, TRUE, new)
         IN IF mn THEN "set" ELSE IF oldHave /\ mb THEN "rem" ELSE "none"
RemOutcome(w, s, p, pay) == IF ~HasFilt(w, s) \/ MN(w, s, p, TRUE, pay) THEN "rem" ELSE "none"
Drop(f, p) == [q \in DOMAIN f \ {p} |-> f[q]]

\* create node p (NotifySubscribersOfNewNode: every session computes its mark, also for a QUIET creation) or overwrite its payload; the subscribers
\* are told unless the change is quiet - then their mirrors lag for this node (hush) until a later change of it is sent to them
PutNode(w, p, pay, by, quiet) ==
    LET isNew == p \notin DOMAIN w.tree
        old == IF isNew THEN 0 ELSE w.tree[p]
        mk == IF ~isNew THEN w.marks[p]
              ELSE [s \in S |-> IF s \in w.conn /\ ~(quiet /\ "QuietCreateNoMarks" \in Deviations) THEN Cnt(w, s, p) ELSE 0]
        w1 == [w EXCEPT !.tree = (p :> pay) @@ w.tree, !.marks = (p :> mk) @@ w.marks,
                        !.ctr = IF p \in DOMAIN w.ctr THEN w.ctr ELSE (p :> 0) @@ w.ctr,
                        !.born = IF p \in DOMAIN w.born THEN w.born ELSE (p :> w.clock) @@ w.born,          \* children are kept (and walked) in the order of their creation
                        !.clock = IF p \in DOMAIN w.born THEN w.clock ELSE w.clock + 1]
        out(s) == SetOutcome(w1, s, p, ~isNew, old, pay)
        told == {s \in NotifySet(w1, p, by) : ~Deaf(w1, s)}
    IN IF quiet THEN [w1 EXCEPT !.hush = @ \cup {<<s, p>> : s \in NotifySet(w1, p, by)}]
       ELSE [w1 EXCEPT !.mirror = [s \in S |-> IF s \notin told THEN w1.mirror[s]
                                               ELSE IF out(s) = "set" THEN (p :> pay) @@ w1.mirror[s]
                                               ELSE IF out(s) = "rem" THEN Drop(w1.mirror[s], p) ELSE w1.mirror[s]],
                        !.hush = (@ \ {<<s, p>> : s \in {t \in told : out(t) # "none"}}) \cup {<<s, p>> : s \in {t \in NotifySet(w1, p, by) \ told : out(t) # "none"}}]

SetIdx(w, q, seq) == [w EXCEPT !.idx = IF seq = <<>> THEN [x \in DOMAIN w.idx \ {q} |-> w.idx[x]] ELSE (q :> seq) @@ w.idx]
IdxOf(w, q) == IF q \in DOMAIN w.idx THEN w.idx[q] ELSE <<>>
Without(seq, nm) == SelectSeq(seq, LAMBDA x : x # nm)
InsAt(seq, pos, nm) == SubSeq(seq, 1, pos - 1) \o <<nm>> \o SubSeq(seq, pos, Len(seq))
PosOf(seq, nm) == IF \E i \in 1..Len(seq) : seq[i] = nm THEN CHOOSE i \in 1..Len(seq) : seq[i] = nm ELSE Len(seq) + 1

\* DataNode::RemoveChild(recurse): the subtree goes, the parent's index entry goes, the subscribers of each node are told (if tell)
RemoveSub(w, p, by, tell) ==
    LET gone == {q \in DOMAIN w.tree : Under(p, q)}
        keep == DOMAIN w.tree \ gone
        w1   == SetIdx(w, Parent(p), Without(IdxOf(w, Parent(p)), Leaf(p)))
    IN [w1 EXCEPT !.tree = [q \in keep |-> w.tree[q]], !.marks = [q \in keep |-> w.marks[q]], !.ctr = [q \in keep |-> w.ctr[q]], !.born = [q \in keep |-> w.born[q]],
                  !.idx = [q \in DOMAIN w1.idx \ gone |-> w1.idx[q]],
                  !.mirror = [s \in S |-> [q \in {x \in DOMAIN w.mirror[s] : ~(tell /\ ~Deaf(w, s) /\ x \in gone /\ s \in NotifySet(w, x, by) /\ RemOutcome(w, s, x, w.tree[x]) = "rem")} |-> w.mirror[s][q]]],
                  !.hush = {e \in w.hush : ~(tell /\ ~Deaf(w, e[1]) /\ e[2] \in gone /\ e[1] \in NotifySet(w, e[2], by) /\ RemOutcome(w, e[1], e[2], w.tree[e[2]]) = "rem")}
                           \cup UNION {{<<s, x>> : x \in gone \cap DOMAIN w.mirror[s]} : s \in {u \in S : Deaf(w, u)}}]      \* a deaf session keeps the vanished nodes in its mirror

RECURSIVE RemoveAll(_, _, _)
RemoveAll(w, ps, by) == IF ps = {} THEN w
                        ELSE LET p == CHOOSE x \in ps : \A y \in ps : Len(y) <= Len(x)          \* deepest first, as DoRemoveData walks its set backwards
                             IN RemoveAll(IF p \in DOMAIN w.tree THEN RemoveSub(w, p, by, TRUE) ELSE w, ps \ {p}, by)

\* StorageReflectSession::SetDataNode for a relative path: missing nodes along the path are created empty, the last one gets the payload
RECURSIVE SetPath(_, _, _, _, _, _, _, _)
SetPath(w, base, cl, k, pay, by, toIndex, quiet) ==
    IF k > Len(cl) THEN w
    ELSE LET p == base \o SubSeq(cl, 1, k)
             isLast == k = Len(cl)
         IN IF ~isLast THEN SetPath(IF p \in DOMAIN w.tree THEN w ELSE PutNode(w, p, 0, by, quiet), base, cl, k + 1, pay, by, toIndex, quiet)
            ELSE IF toIndex THEN (IF p \in DOMAIN w.tree THEN w            \* SETDATANODE_FLAG_ADDTOINDEX on an existing node: nothing happens
                                  ELSE LET w1 == PutNode(w, p, pay, by, quiet) IN SetIdx(w1, Parent(p), Append(IdxOf(w1, Parent(p)), Leaf(p))))
            ELSE PutNode(w, p, pay, by, quiet)

\* the nodes a write command's pattern selects: the walk starts at the SENDER'S session node, a leading slash is dropped
RelSel(w, s, pat, globalRoot) ==
    IF globalRoot THEN {p \in DOMAIN w.tree : Len(p) > 2 /\ Match(pat, p)}
    ELSE {p \in DOMAIN w.tree : Under(Root(s), p) /\ Len(p) > 2 /\ Match(pat, SubSeq(p, 3, Len(p)))}

\* DataNode::InsertOrderedChild with a server-chosen name "I<counter>"
RECURSIVE FreeName(_, _, _)
FreeName(w, q, k) == IF (q \o <<"I" \o ToString(k)>>) \in DOMAIN w.tree THEN FreeName(w, q, k + 1) ELSE k
InsertOrdered(w, q, before, pay, by) ==
    LET k  == FreeName(w, q, w.ctr[q])
        nm == "I" \o ToString(k)
        w1 == PutNode([w EXCEPT !.ctr[q] = k + 1], q \o <<nm>>, pay, by, FALSE)
        cur == IdxOf(w, q)
    IN SetIdx(w1, q, InsAt(cur, PosOf(cur, before), nm))
RECURSIVE InsertAll(_, _, _, _, _)
InsertAll(w, qs, before, pay, by) == IF qs = {} THEN w ELSE LET q == CHOOSE x \in qs : TRUE IN InsertAll(InsertOrdered(w, q, before, pay, by), qs \ {q}, before, pay, by)

\* DataNode::ReorderChild
Reorder(w, p, before) ==
    LET q == Parent(p)  nm == Leaf(p)  cur == IdxOf(w, q)  wo == Without(cur, nm)
    IN IF before = nm THEN w
       ELSE IF before = RmvTag THEN SetIdx(w, q, wo)
       ELSE SetIdx(w, q, InsAt(wo, PosOf(wo, before), nm))
RECURSIVE ReorderAll(_, _, _)
ReorderAll(w, ps, before) == IF ps = {} THEN w ELSE LET p == CHOOSE x \in ps : \A y \in ps : w.born[x] <= w.born[y] IN ReorderAll(Reorder(w, p, before), ps \ {p}, before)

\* a new SUBSCRIBE: parameter: +1 on every node matching the PATH, the nodes that also pass the filter are sent (GETDATA), the parameter is stored
Subscribe(w, s, x) ==
    LET pat == Fix(x)
        hit == {p \in DOMAIN w.tree : Match(pat, p)}
        sent == {y \in hit : Owner(y) # s /\ (x.f = 0 \/ w.tree[y] = x.f)}
        w1 == [w EXCEPT !.mirror[s] = [p \in sent |-> w.tree[p]] @@ @, !.hush = @ \ {<<s, p>> : p \in sent}]      \* the matching nodes are (re-)sent in any case
    IN IF pat \in Subs(w, s) THEN w1      \* same path again (the menu gives each path one filter: no mark changes); one spelling per path (F27 is C04's)
       ELSE [w1 EXCEPT !.psub[s] = @ \cup {x},
                       !.marks = [p \in DOMAIN w.tree |-> IF p \in hit THEN [w.marks[p] EXCEPT ![s] = @ + 1] ELSE w.marks[p]]]
\* RemoveParameter of a SUBSCRIBE: parameter: -1 on every node matching the path; the server says nothing, the client prunes its mirror
\* (it drops what none of its remaining subscriptions - path and filter, on the mirrored payload - selects)
Unsubscribe(w, s, x) ==
    LET pat == Fix(x)
        w1 == [w EXCEPT !.psub[s] = @ \ {x},
                        !.marks = [p \in DOMAIN w.tree |-> IF Match(pat, p) THEN [w.marks[p] EXCEPT ![s] = IF @ > 0 THEN @ - 1 ELSE 0] ELSE w.marks[p]]]
    IN [w1 EXCEPT !.mirror[s] = [p \in {y \in DOMAIN w.mirror[s] : \E q \in w1.psub[s] : Match(Fix(q), y) /\ (q.f = 0 \/ q.f = w.mirror[s][y])} |-> w.mirror[s][p]]]
RECURSIVE UnsubAll(_, _, _)
UnsubAll(w, s, xs) == IF xs = {} THEN w ELSE LET x == CHOOSE y \in xs : TRUE IN UnsubAll(Unsubscribe(w, s, x), s, xs \ {x})

\* StorageReflectSession::Cleanup / ReflectServer::ClearLameDucks: the session node (and an emptied host node) is removed and its
\* subscribers are told; the departing session's marks are wiped by a walk with its own subscription patterns
Disconnect(w, s) ==
    LET tell == "CutNoNotify" \notin Deviations
        w1 == RemoveSub(w, Root(s), s, tell)
        hostEmpty == ~\E q \in DOMAIN w1.tree : Len(q) = 2 /\ q[1] = HostOf(s)
        w2 == IF hostEmpty THEN RemoveSub(w1, <<HostOf(s)>>, s, tell) ELSE w1
        wipe(p) == /\ \E x \in w.psub[s] : Match(Fix(x), p) /\ ("FilteredMarksStay" \notin Deviations \/ x.f = 0 \/ x.f = w2.tree[p])    \* the walk ignores the filters
                   /\ ("DeepMarksStay" \notin Deviations \/ Len(p) <= 3)
                   /\ ("DeafMarksStay" \notin Deviations \/ ~Deaf(w, s))
    IN [w2 EXCEPT !.marks = [p \in DOMAIN w2.tree |-> IF wipe(p) THEN [w2.marks[p] EXCEPT ![s] = 0] ELSE w2.marks[p]],
                  !.params[s] = {}, !.psub[s] = {}, !.conn = @ \ {s}, !.mirror[s] = <<>>, !.hush = {e \in w2.hush : e[1] # s}]
RECURSIVE DisconnectAll(_, _)
DisconnectAll(w, ss) == IF ss = {} THEN w ELSE LET s == CHOOSE x \in ss : TRUE IN DisconnectAll(Disconnect(w, s), ss \ {s})

---------------------------------------------------------------------------------------------------------------
(* commands.  One uniform record shape:                                                                          *)
(*   op   the command        abs  the path string starts with a slash      p   the path, a sequence of clauses   *)
(*   x    a name (before-name, parameter name, key kind)     pay  payload what-code     v  parameter value        *)
(*   sub  sub-commands of a BATCH                                                                                  *)
C(op, abs, p, x, pay) == [op |-> op, abs |-> abs, p |-> p, x |-> x, pay |-> pay, v |-> "", sub |-> <<>>]
CP(name, val)         == [op |-> "SETPARAM", abs |-> FALSE, p |-> <<>>, x |-> name, pay |-> 0, v |-> val, sub |-> <<>>]     \* parameter name := value
Batch(subs)           == [op |-> "BATCH", abs |-> FALSE, p |-> <<>>, x |-> "", pay |-> 0, v |-> "", sub |-> subs]

Privileged == {"KICK", "ADDBANS", "REMOVEBANS", "ADDREQUIRES", "REMOVEREQUIRES"}
HasPriv(w, s) == \E e \in w.params[s] : e[1] = "!Priv"

RECURSIVE Apply(_, _, _), ApplySeq(_, _, _, _)
Apply(w, s, c) ==
    CASE c.op = "SETDATA" ->        \* a path that starts with a slash is ignored ("not allowed, and will be ignored")
             IF c.p = <<>> THEN w
             ELSE IF c.abs THEN (IF "SetDataAbsolute" \in Deviations THEN SetPath(w, <<>>, c.p, 1, c.pay, s, FALSE, FALSE) ELSE w)
             ELSE SetPath(w, Root(s), c.p, 1, c.pay, s, c.x = "index", c.x = "quiet")      \* c.x: "" | "index" (SETDATANODE_FLAG_ADDTOINDEX) | "quiet" (SETDATANODE_FLAG_QUIET)
      [] c.op = "REMOVEDATA" -> RemoveAll(w, RelSel(w, s, c.p, "RemoveFromGlobalRoot" \in Deviations), s)
      [] c.op = "INSERTORDEREDDATA" -> InsertAll(w, RelSel(w, s, c.p, FALSE), c.x, c.pay, s)
      [] c.op = "REORDERDATA" -> ReorderAll(w, RelSel(w, s, c.p, "ReorderFromGlobalRoot" \in Deviations), c.x)
      [] c.op \in Privileged ->      \* refused (PR_RESULT_ERRORACCESSDENIED) unless the session has the privilege bit
             IF c.op = "KICK" /\ (HasPriv(w, s) \/ "KickUnprivileged" \in Deviations)
             THEN DisconnectAll(w, {t \in w.conn \ {s} : \E q \in DOMAIN w.tree : Match(Fix(c), q) /\ Len(q) >= 2 /\ q[2] = t})
             ELSE w
      [] c.op = "SETPARAM" ->        \* c.x the parameter name, c.v its value
             IF c.x = "!Priv" THEN (IF "PrivBitsAccepted" \in Deviations THEN [w EXCEPT !.params[s] = @ \cup {<<"!Priv", c.v>>}] ELSE w)
             ELSE [w EXCEPT !.params[s] = {e \in @ : e[1] # c.x} \cup {<<c.x, c.v>>}]
      [] c.op = "SUBSCRIBE" -> Subscribe(w, s, [abs |-> c.abs, p |-> c.p, f |-> c.pay])       \* c.pay: the what-code its filter asks for (0: no filter)
      [] c.op = "REMOVEPARAM" ->     \* c.x: "*" every parameter, "SUBSCRIBE:*" every subscription, else one parameter by name
             IF c.x = "*" THEN [UnsubAll(w, s, w.psub[s]) EXCEPT !.params[s] = {}]
             ELSE IF c.x = "SUBSCRIBE:*" THEN UnsubAll(w, s, w.psub[s])
             ELSE IF c.x = "SUBSCRIBE:" THEN (LET xs == {x \in w.psub[s] : x.abs = c.abs /\ x.p = c.p} IN IF xs = {} THEN w ELSE Unsubscribe(w, s, CHOOSE x \in xs : TRUE))
             ELSE [w EXCEPT !.params[s] = {e \in @ : e[1] # c.x}]
      [] c.op = "MSG" -> w           \* a client-to-client Message (what-code outside the command range): routed, changes nothing
      [] c.op = "BATCH" -> ApplySeq(w, s, c.sub, 1)
ApplySeq(w, s, cs, i) == IF i > Len(cs) THEN w ELSE ApplySeq(Apply(w, s, cs[i]), s, cs, i + 1)

---------------------------------------------------------------------------------------------------------------
(* the hostile menu *)
SetPaths == {<<FALSE, <<"a">>>>, <<FALSE, <<"a", "b">>>>, <<FALSE, <<"..", "s2", "a">>>>, <<FALSE, <<"*", "a">>>>, <<FALSE, <<"a", "", "b">>>>,
             <<FALSE, <<"hA", "s2", "a">>>>,
             <<TRUE, <<"hA", "s2", "a">>>>, <<TRUE, <<"hA", "s2", "zz">>>>, <<TRUE, <<"hB", "s3", "a", "n">>>>, <<TRUE, <<"*", "*", "a">>>>,
             <<TRUE, <<"hA", "s2">>>>, <<TRUE, <<"hX", "s9", "a">>>>, <<TRUE, <<>>>>}
RemPaths == {<<FALSE, <<"a">>>>, <<FALSE, <<"*">>>>, <<FALSE, <<"*", "*">>>>, <<TRUE, <<"*", "*", "*">>>>, <<TRUE, <<"hA", "s2", "a">>>>,
             <<TRUE, <<"*", "*", "a", "*">>>>, <<FALSE, <<"..", "s2", "a">>>>, <<FALSE, <<"..">>>>, <<FALSE, <<"hA", "s2", "a">>>>, <<TRUE, <<"*">>>>,
             <<TRUE, <<"*", "*">>>>, <<FALSE, <<"a,c">>>>, <<TRUE, <<"hA", "s2,s3", "a">>>>, <<TRUE, <<"hB", "s3", "a">>>>, <<FALSE, <<"a", "", "b">>>>,
             <<FALSE, <<"*", "*", "a">>>>}
InsPaths == {<<FALSE, <<"a">>>>, <<TRUE, <<"hA", "s2", "a">>>>, <<TRUE, <<"*", "*", "a">>>>, <<FALSE, <<"*">>>>, <<FALSE, <<"..", "s2", "a">>>>, <<FALSE, <<"*", "*", "a">>>>}
ReoCmds  == {<<FALSE, <<"a", "I1">>, "I0">>, <<FALSE, <<"a", "*">>, RmvTag>>, <<TRUE, <<"hA", "s2", "a", "I0">>, "zz">>, <<TRUE, <<"*", "*", "a", "*">>, "zz">>,
             <<FALSE, <<"*", "*", "a", "I1">>, "I0">>, <<TRUE, <<"hA", "s2", "a", "I0">>, RmvTag>>, <<FALSE, <<"..", "s2", "a", "I1">>, "I0">>,
             <<TRUE, <<"hA", "s2", "a", "b">>, "I0">>}
KickKeys == {<<TRUE, <<"*", "*">>>>, <<TRUE, <<"hA", "s2">>>>, <<FALSE, <<"*">>>>, <<TRUE, <<"*">>>>, <<TRUE, <<"hB", "*", "a">>>>}
SubPaths == {<<FALSE, <<"*">>>>, <<FALSE, <<"a", "*">>>>, <<TRUE, <<"hA", "s2", "a">>>>, <<TRUE, <<"*", "*">>>>, <<FALSE, <<"*", "*">>>>, <<TRUE, <<"*">>>>}
KickAll  == C("KICK", TRUE, <<"*", "*">>, "", 0)
ForgePriv == CP("!Priv", "-1")

FullMenu ==
    {C("SETDATA", x[1], x[2], "", 7) : x \in SetPaths}
    \cup {C("SETDATA", FALSE, <<"a", "I0">>, "index", 5), C("SETDATA", FALSE, <<"a", "I1">>, "index", 6)}
    \cup {C("SETDATA", FALSE, <<"a">>, "quiet", 7), C("SETDATA", FALSE, <<"a", "b">>, "quiet", 7), C("SETDATA", FALSE, <<"c">>, "quiet", 1), C("SETDATA", FALSE, <<"a">>, "", 2), C("SETDATA", FALSE, <<"c">>, "", 2)}
    \cup {C("SUBSCRIBE", FALSE, <<"a">>, "", 2), C("SUBSCRIBE", TRUE, <<"*", "*", "c">>, "", 1), C("REMOVEPARAM", FALSE, <<"a">>, "SUBSCRIBE:", 0)}
    \* node names with regex token characters, and all-literal subscriptions that escape them (the walk then looks the child up by its un-escaped name)
    \cup {C("SETDATA", FALSE, <<"q(1)">>, "", 7), C("SUBSCRIBE", TRUE, <<"hA", "s2", "q\\(1\\)">>, "", 0), C("REMOVEPARAM", TRUE, <<"hA", "s2", "q\\(1\\)">>, "SUBSCRIBE:", 0)}
    \cup {C("REMOVEDATA", x[1], x[2], "", 0) : x \in RemPaths}
    \cup {C("INSERTORDEREDDATA", x[1], x[2], b, 8) : x \in InsPaths, b \in {"zz", "I0"}}
    \cup {C("REORDERDATA", x[1], x[2], x[3], 0) : x \in ReoCmds}
    \cup {C("KICK", x[1], x[2], "", 0) : x \in KickKeys}
    \cup {C(o, FALSE, <<"*">>, "", 0) : o \in Privileged \ {"KICK"}}
    \cup {ForgePriv, CP("session", "s2"), CP("myparam", "9"), CP("!SnKy", "/*/*")}
    \cup {C("SUBSCRIBE", x[1], x[2], "", 0) : x \in SubPaths}
    \cup {C("REMOVEPARAM", FALSE, <<>>, k, 0) : k \in {"*", "SUBSCRIBE:*", "myparam", "!Priv", "session", "!Dsub"}}
    \cup {CP("!Dsub", "1")}
    \cup {C("REMOVEPARAM", FALSE, <<"*">>, "SUBSCRIBE:", 0)}
    \cup {C("MSG", TRUE, <<"*", "*">>, "s2", 0), C("MSG", FALSE, <<>>, "s3", 0)}
    \cup {Batch(<<ForgePriv, KickAll>>),
          Batch(<<C("SETDATA", TRUE, <<"hA", "s2", "a">>, "", 9), C("REMOVEDATA", TRUE, <<"*", "*", "*">>, "", 0)>>),
          Batch(<<C("SETDATA", FALSE, <<"a">>, "", 3), C("SUBSCRIBE", FALSE, <<"*">>, "", 0), C("REMOVEDATA", FALSE, <<"*">>, "", 0)>>),
          Batch(<<Batch(<<C("REORDERDATA", TRUE, <<"hA", "s2", "a", "I1">>, "I0", 0)>>), CP("myparam", "1")>>)}

SmallMenu ==
    {C("SETDATA", FALSE, <<"a">>, "", 7), C("SETDATA", FALSE, <<"a", "b">>, "", 7), C("SETDATA", TRUE, <<"hA", "s2", "a">>, "", 7), C("SETDATA", FALSE, <<"a", "I0">>, "index", 5),
     C("REMOVEDATA", FALSE, <<"*">>, "", 0), C("REMOVEDATA", TRUE, <<"*", "*", "*">>, "", 0), C("REMOVEDATA", TRUE, <<"*", "*", "a", "*">>, "", 0),
     C("INSERTORDEREDDATA", FALSE, <<"a">>, "zz", 8), C("REORDERDATA", TRUE, <<"hA", "s2", "a", "I0">>, "zz", 0),
     KickAll, C("SUBSCRIBE", FALSE, <<"*">>, "", 0), C("SUBSCRIBE", FALSE, <<"*", "*">>, "", 0), C("SUBSCRIBE", TRUE, <<"*", "*">>, "", 0),
     C("REMOVEPARAM", FALSE, <<>>, "*", 0), ForgePriv, Batch(<<ForgePriv, KickAll>>),
     C("SETDATA", FALSE, <<"a", "b">>, "quiet", 7), C("SETDATA", FALSE, <<"a">>, "", 2), C("SUBSCRIBE", FALSE, <<"a">>, "", 2), C("SUBSCRIBE", TRUE, <<"*", "*", "c">>, "", 1),
     CP("!Dsub", "1")}

Menu == IF MenuKind = "full" THEN FullMenu ELSE SmallMenu

---------------------------------------------------------------------------------------------------------------
(* initial state: what the harness sets up with ordinary commands before the history starts *)
Empty == [tree |-> (<<"hA">> :> 0) @@ (<<"hB">> :> 0) @@ [s \in {Root(t) : t \in S} |-> 0],
          idx |-> <<>>, ctr |-> (<<"hA">> :> 0) @@ (<<"hB">> :> 0) @@ [s \in {Root(t) : t \in S} |-> 0],
          born |-> (<<"hA">> :> 0) @@ (<<"hB">> :> 0) @@ [s \in {Root(t) : t \in S} |-> 0], clock |-> 1,
          marks |-> (<<"hA">> :> [s \in S |-> 0]) @@ (<<"hB">> :> [s \in S |-> 0]) @@ [q \in {Root(t) : t \in S} |-> [s \in S |-> 0]],
          params |-> [s \in S |-> {}], psub |-> [s \in S |-> {}], conn |-> S, mirror |-> [s \in S |-> <<>>], hush |-> {}]
Setup == <<
    <<"s2", C("SETDATA", FALSE, <<"a">>, "", 1)>>, <<"s2", C("SETDATA", FALSE, <<"a", "b">>, "", 2)>>,
    <<"s2", C("SETDATA", FALSE, <<"a", "I0">>, "index", 3)>>, <<"s2", C("SETDATA", FALSE, <<"a", "I1">>, "index", 4)>>,
    <<"s2", C("SETDATA", FALSE, <<"c">>, "", 1)>>,
    <<"s2", CP("myparam", "7")>>, <<"s2", C("SUBSCRIBE", FALSE, <<"*">>, "", 0)>>, <<"s2", C("SUBSCRIBE", FALSE, <<"a", "*">>, "", 0)>>,
    <<"s3", C("SETDATA", FALSE, <<"a">>, "", 1)>>,
    <<"s3", C("SUBSCRIBE", FALSE, <<"*", "*">>, "", 0)>>, <<"s3", C("SUBSCRIBE", TRUE, <<"*", "*">>, "", 0)>>,
    <<"s3", C("SUBSCRIBE", FALSE, <<"a">>, "", 2)>> >>      \* a filtered subscription whose filter the existing "a" nodes (what 1) do not pass: they carry s3's mark all the same
RECURSIVE RunSetup(_, _)
RunSetup(w, i) == IF i > Len(Setup) THEN w ELSE RunSetup(Apply(w, Setup[i][1], Setup[i][2]), i + 1)
InitWorld == RunSetup(Empty, 1)

\* the world in a flat form (sets of tuples) for the step records / trace lines
Flat(w) == [tree   |-> {<<p, w.tree[p]>> : p \in DOMAIN w.tree},
            idx    |-> {<<p, w.idx[p]>> : p \in DOMAIN w.idx},
            marks  |-> {t \in {<<p, s, w.marks[p][s]>> : p \in DOMAIN w.tree, s \in S} : t[3] > 0},
            params |-> UNION {{<<s, e[1], e[2]>> : e \in w.params[s]} : s \in S},
            psub   |-> UNION {{<<s, x.abs, x.p, x.f>> : x \in w.psub[s]} : s \in S},
            conn   |-> w.conn,
            mirror |-> UNION {{<<s, p, w.mirror[s][p]>> : p \in DOMAIN w.mirror[s]} : s \in S}]

Init == /\ st = InitWorld /\ n = 0 /\ who = "none" /\ kind = "init"
        /\ last = IF RECORD THEN [a |-> "Init", who |-> "none", st |-> Flat(InitWorld)] ELSE [a |-> "Init"]

DoCmd(s, c) == /\ s \in st.conn
               /\ st' = Apply(st, s, c) /\ who' = s /\ kind' = "cmd" /\ n' = n + 1
               /\ last' = IF RECORD THEN [a |-> "Cmd", who |-> s, cmd |-> c, st |-> Flat(st')] ELSE last
Depart(s)   == /\ s \in st.conn
               /\ st' = Disconnect(st, s) /\ who' = s /\ kind' = "depart" /\ n' = n + 1
               /\ last' = IF RECORD THEN [a |-> "Depart", who |-> s, st |-> Flat(st')] ELSE last

Cmd    == n < MaxSteps /\ \E s \in Actors, c \in Menu : DoCmd(s, c)
Leave  == n < MaxSteps /\ (\A a \in Actors : a \in st.conn) /\ \E s \in S : Depart(s)     \* once an actor has left the history is over
Next == Cmd \/ Leave
Spec == Init /\ [][Next]_vars

---------------------------------------------------------------------------------------------------------------
(* The property *)
Proj(w, s) == [tree   |-> {<<p, w.tree[p]>> : p \in {q \in DOMAIN w.tree : Under(Root(s), q)}},
               idx    |-> {<<p, w.idx[p]>> : p \in {q \in DOMAIN w.idx : Under(Root(s), q)}},
               params |-> w.params[s], psub |-> w.psub[s], conn |-> s \in w.conn]

\* every command leaves every OTHER session's projection as it was
Frame == [][kind' = "cmd" => \A s \in S \ {who'} : Proj(st', s) = Proj(st, s)]_vars

\* what "no trace" means: everything of s is gone, nothing else has changed, the subscribers of its nodes have been told
EraseSession(w, s) ==
    LET hostGone == ~\E t \in w.conn \ {s} : HostOf(t) = HostOf(s)
        gone == {p \in DOMAIN w.tree : Under(Root(s), p) \/ (hostGone /\ p = <<HostOf(s)>>)}
        keep == DOMAIN w.tree \ gone
    IN [tree |-> [p \in keep |-> w.tree[p]], idx |-> [p \in DOMAIN w.idx \ gone |-> w.idx[p]], ctr |-> [p \in keep |-> w.ctr[p]], born |-> [p \in keep |-> w.born[p]], clock |-> w.clock,
        marks |-> [p \in keep |-> [w.marks[p] EXCEPT ![s] = 0]],
        params |-> [w.params EXCEPT ![s] = {}], psub |-> [w.psub EXCEPT ![s] = {}], conn |-> w.conn \ {s},
        mirror |-> [t \in S |-> IF t = s THEN <<>> ELSE [p \in DOMAIN w.mirror[t] \ gone |-> w.mirror[t][p]]],
        hush |-> {e \in w.hush : e[1] # s /\ e[2] \notin gone}]
\* (where a mirror lags because of a QUIET change - hush - it is not the departure's business)
SameButHush(a, b) == /\ [a EXCEPT !.mirror = <<>>, !.hush = {}] = [b EXCEPT !.mirror = <<>>, !.hush = {}]
                     /\ \A t \in S : \A p \in DOMAIN a.mirror[t] \cup DOMAIN b.mirror[t] :
                            <<t, p>> \in a.hush \cup b.hush \/ (p \in DOMAIN a.mirror[t] /\ p \in DOMAIN b.mirror[t] /\ a.mirror[t][p] = b.mirror[t][p])
Erase == [][kind' = "depart" => SameButHush(st', EraseSession(st, who'))]_vars

\* the incrementally maintained marks are exactly the match counts of the connected sessions' subscriptions
MarksExact == \A p \in DOMAIN st.tree, s \in S : st.marks[p][s] = IF s \in st.conn THEN Cnt(st, s, p) ELSE 0
\* every client's mirror is exactly what its subscriptions select of the others' nodes
MirrorExact == \A s \in st.conn : \A p \in DOMAIN st.tree \cup DOMAIN st.mirror[s] :
                   <<s, p>> \in st.hush \/ (IF p \in DOMAIN st.tree /\ Sel(st, s, p) THEN p \in DOMAIN st.mirror[s] /\ st.mirror[s][p] = st.tree[p] ELSE p \notin DOMAIN st.mirror[s])
\* a departed session has nothing left
NoTrace == \A s \in S \ st.conn : /\ ~\E p \in DOMAIN st.tree : Under(Root(s), p)
                                  /\ st.params[s] = {} /\ st.psub[s] = {} /\ st.mirror[s] = <<>>
                                  /\ \A p \in DOMAIN st.tree : st.marks[p][s] = 0
                                  /\ \A t \in st.conn : \A p \in DOMAIN st.mirror[t] : ~Under(Root(s), p) \/ <<t, p>> \in st.hush
\* index entries are children, none twice
IdxSound == \A q \in DOMAIN st.idx : /\ q \in DOMAIN st.tree /\ st.idx[q] # <<>>
                                     /\ \A i \in 1..Len(st.idx[q]) : (q \o <<st.idx[q][i]>>) \in DOMAIN st.tree
                                     /\ \A i, j \in 1..Len(st.idx[q]) : i # j => st.idx[q][i] # st.idx[q][j]
\* the tree is closed under parents and hosts exist exactly while they have a session
TreeShape == /\ \A p \in DOMAIN st.tree : Len(p) >= 1 /\ (Len(p) > 1 => Parent(p) \in DOMAIN st.tree)
             /\ \A s \in S : (s \in st.conn) = (Root(s) \in DOMAIN st.tree)
             /\ \A p \in DOMAIN st.tree : Len(p) = 1 => \E s \in st.conn : HostOf(s) = p[1]
             /\ DOMAIN st.marks = DOMAIN st.tree /\ DOMAIN st.ctr = DOMAIN st.tree /\ DOMAIN st.born = DOMAIN st.tree
\* privilege bits are the server's to give: a session gets them iff its address matches one of the patterns the server was configured with (muscled's privkick= /
\* privban= / privunban= / privall=, central-state fields priv0..priv3) - the WHOLE address, as every pattern match.  The table lists, for a configured pattern, client
\* addresses equal to it / extending it / a prefix of it / unrelated, and whether the session is privileged; the harness runs server instances configured that way:
\* the unprivileged sessions' KICK / ADDBANS / REMOVEBANS / ADDREQUIRES / REMOVEREQUIRES must be bounced and change nothing (NoPrivilege, Frame, OnlySelfLeaves)
PrivCases == << [pat |-> "127.0.0.2", hosts |-> <<"127.0.0.2", "127.0.0.20", "127.0.0.21", "127.0.0", "127.0.0.1", "10.0.0.2", "227.0.0.2">>, priv |-> <<TRUE, FALSE, FALSE, FALSE, FALSE, FALSE, FALSE>>],
               [pat |-> "10.0.0.1", hosts |-> <<"10.0.0.1", "10.0.0.17", "10.0.0.100", "110.0.0.1">>, priv |-> <<TRUE, FALSE, FALSE, FALSE>>],
               [pat |-> "127.0.1.*", hosts |-> <<"127.0.1.7", "127.0.1.70", "127.0.10.7", "127.0.1">>, priv |-> <<TRUE, TRUE, FALSE, FALSE>>] >>
NoPrivilege == \A s \in S : ~HasPriv(st, s)
\* nobody but the departing session itself ever gets disconnected
OnlySelfLeaves == [][st'.conn # st.conn => (kind' = "init" \/ (kind' = "depart" /\ st'.conn = st.conn \ {who'}))]_vars     \* ("init": a new execution in a trace)

=============================================================================
