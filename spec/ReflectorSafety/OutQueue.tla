------------------------------- MODULE OutQueue -------------------------------
(***************************************************************************************************************)
(* C07 - one client's traffic can never hang or crash the server: the part of StorageReflectSession.cpp that     *)
(* walks or edits the OUTGOING queue of the sending session itself while earlier replies are still queued         *)
(* because the client is not reading: JettisonOutgoingResults (PR_COMMAND_JETTISONRESULTS with no keys / keys /   *)
(* keys + filters), JettisonOutgoingSubtrees (PR_COMMAND_JETTISONDATATREES with / without request ids), and       *)
(* PR_COMMAND_BATCH around them (nesting capped at MaxNest).                                                      *)
(*                                                                                                               *)
(* Every loop of the code is modelled WITH ITS LOOP VARIABLE, one action per iteration, so that TLC checks        *)
(* termination (Terminates, under weak fairness) and, at the end, the queue contents against the functional       *)
(* definition Abs (ResultIsAbs).  Deviation "F1" is the defect that was found here and repaired in the repository *)
(* (fixes/F1.diff): the inner loop over the items of a field removed by the OUTER queue index; with it TLC must    *)
(* find Terminates violated (the check's vacuity guard).                                                          *)
(*                                                                                                               *)
(* A queued Message is  [k |-> "items", sets |-> <<[n, ws]...>>, rem |-> <<names>>]   PR_RESULT_DATAITEMS: fields  *)
(* named by node path holding one or more payloads (what-codes ws), and the removed-node names;                    *)
(*                      [k |-> "trees", id |-> request id or "none"]                   PR_RESULT_DATATREES;         *)
(*                      [k |-> "other"]                                                 anything else (PR_RESULT_PONG).*)
(* Node names stand for the paths /host/session/<name> of nodes three levels down; a key <pat> stands for */*/<pat>.*)
(***************************************************************************************************************)
EXTENDS Naturals, Sequences, FiniteSets, TLC

CONSTANTS Deviations,   \* subset of {"F1"}
          MaxLen,       \* queue states: all sequences of at most MaxLen shapes of Shapes(ShapeKind) ...
          ShapeKind,    \* "all" | "few"
          MaxNest       \* BATCH nesting cap of the code (100)

Names == {"a", "b", "c"}
Items(sets, rem) == [k |-> "items", sets |-> sets, rem |-> rem, id |-> "none"]
Trees(id)        == [k |-> "trees", sets |-> <<>>, rem |-> <<>>, id |-> id]
Other            == [k |-> "other", sets |-> <<>>, rem |-> <<>>, id |-> "none"]
F(n, ws)         == [n |-> n, ws |-> ws]

AllShapes == <<Items(<<F("a", <<1>>), F("b", <<2>>)>>, <<>>), Items(<<F("a", <<2>>)>>, <<>>), Items(<<>>, <<"c">>), Items(<<F("b", <<1>>)>>, <<"a">>),
               Items(<<F("a", <<1, 2>>)>>, <<>>), Trees("t1"), Trees("none"), Other>>
FewShapes == <<Items(<<F("a", <<1>>), F("b", <<2>>)>>, <<>>), Items(<<F("b", <<1>>)>>, <<"a">>), Items(<<F("a", <<1, 2>>)>>, <<>>), Trees("t1")>>
ShapeSeq  == IF ShapeKind = "all" THEN AllShapes ELSE FewShapes
ShapeSet  == {ShapeSeq[i] : i \in DOMAIN ShapeSeq}
Queues    == UNION {[1..len -> ShapeSet] : len \in 0..MaxLen}

\* commands: kind, key patterns (one clause: "*", a name), filter per key ("none" | "w1" | "w2" | "bad"), nesting depth (BATCHes around it)
Cmd(kind, keys, filt, nest) == [kind |-> kind, keys |-> keys, filt |-> filt, nest |-> nest]
Prims == {Cmd("JR", <<>>, <<>>, 0),
          Cmd("JR", <<"a">>, <<"none">>, 0), Cmd("JR", <<"*">>, <<"none">>, 0), Cmd("JR", <<"zz">>, <<"none">>, 0), Cmd("JR", <<"a", "c">>, <<"none", "none">>, 0),
          Cmd("JR", <<"a">>, <<"w1">>, 0), Cmd("JR", <<"*">>, <<"w1">>, 0), Cmd("JR", <<"*">>, <<"w2">>, 0), Cmd("JR", <<"a", "b">>, <<"w2", "none">>, 0), Cmd("JR", <<"*">>, <<"bad">>, 0),
          Cmd("JT", <<>>, <<>>, 0), Cmd("JT", <<"t1">>, <<>>, 0), Cmd("JT", <<"*">>, <<>>, 0), Cmd("JT", <<"zz", "t1">>, <<>>, 0)}
\* a command Message: a sequence of primitives (a BATCH of them, each possibly inside further BATCHes)
Commands == {<<p>> : p \in Prims}
            \cup {<<Cmd("JR", <<"*">>, <<"w1">>, 1), Cmd("JT", <<>>, <<>>, 1)>>, <<Cmd("JT", <<"*">>, <<>>, 2), Cmd("JR", <<>>, <<>>, 1)>>,
                  <<Cmd("JR", <<>>, <<>>, MaxNest)>>, <<Cmd("JR", <<>>, <<>>, MaxNest + 1)>>, <<Cmd("JR", <<"*">>, <<"w2">>, MaxNest + 1), Cmd("JT", <<"*">>, <<>>, 1)>>}

VARIABLES q0, cmd,    \* the case: queue before, command Message
          q,          \* the queue
          todo,       \* primitives of the command Message still to be executed
          pc,         \* "next" | "outer" | "rem" | "fields" | "inner" | "after" | "trees" | "done"
          i,          \* outer loop: queue index (1-based; the code's i + 1)
          nextr,      \* loop over the removed-entries (1-based)
          fld,        \* field iterator position in q[i].sets (1-based)
          j,          \* inner loop over the items of the field (0-based, as in the code)
          idp         \* JETTISONDATATREES: index of the request-id pattern being applied
vars == <<q0, cmd, q, todo, pc, i, nextr, fld, j, idp>>

---------------------------------------------------------------------------------------------------------------
CM(pat, name) == pat = "*" \/ pat = name
\* the effective filter of key number n: its own, else the nearest earlier one ("bleeds down"); "bad" archives yield no filter
RECURSIVE EffFilt(_, _)
EffFilt(c, n) == IF n = 0 THEN "none"
                 ELSE IF n <= Len(c.filt) /\ c.filt[n] \in {"w1", "w2"} THEN c.filt[n]
                 ELSE IF n <= Len(c.filt) /\ c.filt[n] = "bad" THEN "none"          \* an archive the factory rejects: the running filter becomes NULL
                 ELSE EffFilt(c, n - 1)                                               \* no PR_NAME_FILTERS item at this index: the previous one stays
NumFilters(c) == Cardinality({n \in 1..Len(c.keys) : EffFilt(c, n) # "none"})
FiltOK(f, w) == f = "none" \/ (f = "w1" /\ w = 1) \/ (f = "w2" /\ w = 2)
\* PathMatcher::MatchesPath(name, payload or NULL)
MatchesPath(c, name, w) == \E n \in 1..Len(c.keys) : CM(c.keys[n], name) /\ (w = 0 \/ FiltOK(EffFilt(c, n), w))      \* w = 0: no payload given, filters ignored

RemoveAt(s, n) == SubSeq(s, 1, n - 1) \o SubSeq(s, n + 1, Len(s))
Cur == todo[1]
Msg == q[i]

Init == /\ q0 \in Queues /\ cmd \in Commands
        /\ q = q0 /\ todo = cmd /\ pc = "next" /\ i = 0 /\ nextr = 0 /\ fld = 0 /\ j = 0 /\ idp = 0

\* dispatch of the next primitive (PR_COMMAND_BATCH executes its sub-Messages in order; deeper than MaxNest they are not executed)
Dispatch == /\ pc = "next"
            /\ IF todo = <<>> THEN pc' = "done" /\ UNCHANGED <<q, todo, i, nextr, fld, j, idp>>
               ELSE IF Cur.nest > MaxNest THEN todo' = Tail(todo) /\ UNCHANGED <<q, pc, i, nextr, fld, j, idp>>
               ELSE IF Cur.kind = "JR" THEN pc' = "outer" /\ i' = Len(q) /\ UNCHANGED <<q, todo, nextr, fld, j, idp>>
               ELSE /\ pc' = "trees" /\ i' = Len(q) /\ idp' = (IF Cur.keys = <<>> THEN 0 ELSE 1) /\ UNCHANGED <<q, todo, nextr, fld, j>>
            /\ UNCHANGED <<q0, cmd>>

\* JettisonOutgoingResults: for (i = last; i >= 0; i--)
Outer == /\ pc = "outer"
         /\ IF i < 1 THEN pc' = "next" /\ todo' = Tail(todo) /\ UNCHANGED <<q, i, nextr, fld, j>>
            ELSE IF Msg.k # "items" THEN i' = i - 1 /\ UNCHANGED <<q, todo, pc, nextr, fld, j>>
            ELSE IF Cur.keys = <<>> THEN q' = [q EXCEPT ![i].sets = <<>>, ![i].rem = <<>>] /\ pc' = "after" /\ UNCHANGED <<todo, i, nextr, fld, j>>      \* msg->Clear()
            ELSE pc' = "rem" /\ nextr' = 1 /\ UNCHANGED <<q, todo, i, fld, j>>
         /\ UNCHANGED <<q0, cmd, idp>>
\* while (FindString(PR_NAME_REMOVED_DATAITEMS, nextr)) if matches RemoveData(nextr) else nextr++
Rem == /\ pc = "rem"
       /\ IF nextr <= Len(Msg.rem)
          THEN IF MatchesPath(Cur, Msg.rem[nextr], 0) THEN q' = [q EXCEPT ![i].rem = RemoveAt(@, nextr)] /\ UNCHANGED <<pc, nextr, fld>>
               ELSE nextr' = nextr + 1 /\ UNCHANGED <<q, pc, fld>>
          ELSE pc' = "fields" /\ fld' = 1 /\ UNCHANGED <<q, nextr>>
       /\ UNCHANGED <<q0, cmd, todo, i, j, idp>>
\* for (iter over the Message-typed fields)
Fields == /\ pc = "fields"
          /\ IF fld > Len(Msg.sets) THEN pc' = "after" /\ UNCHANGED <<q, fld, j>>
             ELSE IF NumFilters(Cur) > 0 THEN pc' = "inner" /\ j' = 0 /\ UNCHANGED <<q, fld>>
             ELSE IF MatchesPath(Cur, Msg.sets[fld].n, 0) THEN q' = [q EXCEPT ![i].sets = RemoveAt(@, fld)] /\ UNCHANGED <<pc, fld, j>>    \* RemoveName; the iterator goes on with the next field
             ELSE fld' = fld + 1 /\ UNCHANGED <<q, pc, j>>
          /\ UNCHANGED <<q0, cmd, todo, i, nextr, idp>>
\* for (j = 0; FindMessage(name, j); ) if matches RemoveData(name, j) else j++          (F1: RemoveData(name, i))
Inner == /\ pc = "inner"
         /\ LET fl == Msg.sets[fld] IN
            IF j < Len(fl.ws)
            THEN IF MatchesPath(Cur, fl.n, fl.ws[j + 1])
                 THEN LET ridx == IF "F1" \in Deviations THEN i - 1 ELSE j IN            \* the index handed to RemoveData (0-based)
                      IF ridx < Len(fl.ws)
                      THEN (IF Len(fl.ws) = 1 THEN q' = [q EXCEPT ![i].sets = RemoveAt(@, fld)] /\ pc' = "fields" /\ UNCHANGED <<fld, j>>    \* the field's last item: the field goes, FindMessage fails, the iterator goes on
                            ELSE q' = [q EXCEPT ![i].sets[fld].ws = RemoveAt(@, ridx + 1)] /\ UNCHANGED <<pc, fld, j>>)
                      ELSE UNCHANGED <<q, pc, fld, j>>                                    \* RemoveData fails, nothing changes, the loop goes round again
                 ELSE j' = j + 1 /\ UNCHANGED <<q, pc, fld>>
            ELSE pc' = "fields" /\ fld' = fld + 1 /\ UNCHANGED <<q, j>>
         /\ UNCHANGED <<q0, cmd, todo, i, nextr, idp>>
\* if (msg->HasNames() == false) oq.RemoveItemAt(i)
After == /\ pc = "after"
         /\ q' = IF Msg.sets = <<>> /\ Msg.rem = <<>> THEN RemoveAt(q, i) ELSE q
         /\ i' = i - 1 /\ pc' = "outer"
         /\ UNCHANGED <<q0, cmd, todo, nextr, fld, j, idp>>
\* JettisonOutgoingSubtrees, once per request-id string of the command (or once with NULL)
TreesLoop == /\ pc = "trees"
             /\ IF i < 1
                THEN IF idp = 0 \/ idp >= Len(Cur.keys) THEN pc' = "next" /\ todo' = Tail(todo) /\ UNCHANGED <<q, i, idp>>
                     ELSE idp' = idp + 1 /\ i' = Len(q) /\ UNCHANGED <<q, todo, pc>>
                ELSE /\ q' = IF Msg.k = "trees" /\ (IF idp = 0 THEN Msg.id = "none" ELSE (Msg.id # "none" /\ CM(Cur.keys[idp], Msg.id))) THEN RemoveAt(q, i) ELSE q
                     /\ i' = i - 1 /\ UNCHANGED <<todo, pc, idp>>
             /\ UNCHANGED <<q0, cmd, nextr, fld, j>>

Next == Dispatch \/ Outer \/ Rem \/ Fields \/ Inner \/ After \/ TreesLoop
Spec == Init /\ [][Next]_vars
FairSpec == Spec /\ WF_vars(Next)

---------------------------------------------------------------------------------------------------------------
(* The property *)
\* every command is handled in a bounded number of steps
Terminates == <>(pc = "done")

\* ... and leaves the queue the functional definition gives
AbsItems(c, m) == LET rem2 == SelectSeq(m.rem, LAMBDA r : ~MatchesPath(c, r, 0))
                      keepW(n, w) == ~MatchesPath(c, n, IF NumFilters(c) > 0 THEN w ELSE 0)
                      RECURSIVE flt(_)
                      flt(s) == IF s = <<>> THEN <<>>
                                ELSE LET ws2 == SelectSeq(Head(s).ws, LAMBDA w : keepW(Head(s).n, w))
                                     IN (IF ws2 = <<>> THEN <<>> ELSE <<F(Head(s).n, ws2)>>) \o flt(Tail(s))
                  IN IF c.keys = <<>> THEN [m EXCEPT !.sets = <<>>, !.rem = <<>>] ELSE [m EXCEPT !.sets = flt(m.sets), !.rem = rem2]
AbsPrim(c, qq) == IF c.nest > MaxNest THEN qq
                  ELSE IF c.kind = "JR" THEN SelectSeq([n \in 1..Len(qq) |-> IF qq[n].k = "items" THEN AbsItems(c, qq[n]) ELSE qq[n]], LAMBDA m : ~(m.k = "items" /\ m.sets = <<>> /\ m.rem = <<>>))
                  ELSE IF c.keys = <<>> THEN SelectSeq(qq, LAMBDA m : ~(m.k = "trees" /\ m.id = "none"))
                  ELSE SelectSeq(qq, LAMBDA m : ~(m.k = "trees" /\ m.id # "none" /\ \E n \in 1..Len(c.keys) : CM(c.keys[n], m.id)))
RECURSIVE Abs(_, _)
Abs(cs, qq) == IF cs = <<>> THEN qq ELSE Abs(Tail(cs), AbsPrim(Head(cs), qq))
ResultIsAbs == pc = "done" => q = Abs(cmd, q0)

\* only the sender's own result Messages are ever touched, and never more than asked: other kinds stay, in order
OthersStay == SelectSeq(q, LAMBDA m : m.k = "other") = SelectSeq(q0, LAMBDA m : m.k = "other")
TypeOK == /\ i \in 0..MaxLen /\ j \in 0..3 /\ Len(q) <= Len(q0)
          /\ pc \in {"next", "outer", "rem", "fields", "inner", "after", "trees", "done"}
\* (an items Message emptied by "JR" is removed; one that arrives empty does not exist)
NoEmptyItems == pc \in {"done", "next"} => \A n \in 1..Len(q) : q[n].k = "items" => (q[n].sets # <<>> \/ q[n].rem # <<>>)
=============================================================================
