SPECIFICATION TraceSpec
CONSTANTS
  MaxSteps = 0
  Deviations = {}
  RECORD = FALSE
  Actors = {"s1", "s2", "s3"}
  MenuKind = "full"
INVARIANTS NotAccepted MarksExact MirrorExact NoTrace IdxSound TreeShape NoPrivilege
PROPERTIES Frame Erase OnlySelfLeaves
CONSTRAINT Track
POSTCONDITION Report
