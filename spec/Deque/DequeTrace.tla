------------------------------ MODULE DequeTrace ------------------------------
(* Trace validation for C16 (code -> spec): the call log recorded by harness/qu.cpp from a real muscle::Queue   *)
(* (one line per public call: name, arguments, returned status / integer / iterator output, contents of the    *)
(* other queue and FULL contents after the call) must be a behaviour of Deque.tla: every line is explained by   *)
(* the action of the same name with the logged arguments, and what the action says about the result and the     *)
(* contents is what was logged.  One state per line (the log names the action and its arguments).  Several      *)
(* executions are concatenated with {"op":"Reset"} lines.                                                      *)
(*   TraceSpec : strict; stops at the first line the specification cannot explain (l = that line).              *)
(*   DiagSpec  : for a rejected execution only: follows the specification and flags the first difference, so    *)
(*               that the counterexample's last state shows what the specification expected (`last`).           *)
EXTENDS Deque, Json, IOUtils

VARIABLES l,     \* next line of the log
          bad    \* DiagSpec: the line just taken differs from what the specification says
TraceLog == ndJsonDeserialize(IOEnv.TRACE)
N == Len(TraceLog)

\* the action a line names, with the line's arguments (generated from the action list of Deque.tla)
Step(ln) ==
    CASE ln.op = "AddTail" -> AddTail(ln.v)
      [] ln.op = "AddTailDefault" -> AddTailDefault
      [] ln.op = "AddTailGet" -> AddTailGet
      [] ln.op = "AddTailGetV" -> AddTailGetV(ln.v)
      [] ln.op = "AddTailOwn" -> AddTailOwn(ln.a)
      [] ln.op = "AddTailIfAbsent" -> AddTailIfAbsent(ln.v)
      [] ln.op = "AddHead" -> AddHead(ln.v)
      [] ln.op = "AddHeadDefault" -> AddHeadDefault
      [] ln.op = "AddHeadGet" -> AddHeadGet
      [] ln.op = "AddHeadGetV" -> AddHeadGetV(ln.v)
      [] ln.op = "AddHeadOwn" -> AddHeadOwn(ln.a)
      [] ln.op = "AddHeadIfAbsent" -> AddHeadIfAbsent(ln.v)
      [] ln.op = "AddTailMulti" -> AddTailMulti(ln.src, ln.a, ln.b)
      [] ln.op = "AddTailMultiArr" -> AddTailMultiArr(ln.src)
      [] ln.op = "AddTailMultiSelf" -> AddTailMultiSelf(ln.a, ln.b)
      [] ln.op = "AddTailMultiOwnArr" -> AddTailMultiOwnArr(ln.a, ln.b)
      [] ln.op = "AddHeadMulti" -> AddHeadMulti(ln.src, ln.a, ln.b)
      [] ln.op = "AddHeadMultiArr" -> AddHeadMultiArr(ln.src)
      [] ln.op = "AddHeadMultiSelf" -> AddHeadMultiSelf(ln.a, ln.b)
      [] ln.op = "AddHeadMultiOwnArr" -> AddHeadMultiOwnArr(ln.a, ln.b)
      [] ln.op = "InsertItemAt" -> InsertItemAt(ln.a, ln.v)
      [] ln.op = "InsertItemAtDefault" -> InsertItemAtDefault(ln.a)
      [] ln.op = "InsertItemAtOwn" -> InsertItemAtOwn(ln.a, ln.b)
      [] ln.op = "InsertItemsAt" -> InsertItemsAt(ln.a, ln.src, ln.b, ln.c)
      [] ln.op = "InsertItemsAtArr" -> InsertItemsAtArr(ln.a, ln.src)
      [] ln.op = "InsertItemsAtSelf" -> InsertItemsAtSelf(ln.a, ln.b, ln.c)
      [] ln.op = "InsertSorted" -> InsertSorted(ln.v)
      [] ln.op = "RemoveHead" -> RemoveHead
      [] ln.op = "RemoveHeadRet" -> RemoveHeadRet
      [] ln.op = "RemoveHeadDef" -> RemoveHeadDef
      [] ln.op = "RemoveHeadMulti" -> RemoveHeadMulti(ln.a)
      [] ln.op = "RemoveTail" -> RemoveTail
      [] ln.op = "RemoveTailRet" -> RemoveTailRet
      [] ln.op = "RemoveTailDef" -> RemoveTailDef
      [] ln.op = "RemoveTailMulti" -> RemoveTailMulti(ln.a)
      [] ln.op = "RemoveItemAt" -> RemoveItemAt(ln.a)
      [] ln.op = "RemoveItemAtRet" -> RemoveItemAtRet(ln.a)
      [] ln.op = "RemoveItemAtDef" -> RemoveItemAtDef(ln.a)
      [] ln.op = "RemoveFirst" -> RemoveFirst(ln.v)
      [] ln.op = "RemoveLast" -> RemoveLast(ln.v)
      [] ln.op = "RemoveAll" -> RemoveAll(ln.v)
      [] ln.op = "RemoveAllOwn" -> RemoveAllOwn(ln.a)
      [] ln.op = "RemoveDup" -> RemoveDup
      [] ln.op = "RemoveSortedDup" -> RemoveSortedDup
      [] ln.op = "GetItemAt" -> GetItemAt(ln.a)
      [] ln.op = "GetItemPtr" -> GetItemPtr(ln.a)
      [] ln.op = "GetWithDefault" -> GetWithDefault(ln.a)
      [] ln.op = "GetWithDefaultV" -> GetWithDefaultV(ln.a, ln.v)
      [] ln.op = "HeadWithDefault" -> HeadWithDefault
      [] ln.op = "TailWithDefault" -> TailWithDefault
      [] ln.op = "ReplaceItemAt" -> ReplaceItemAt(ln.a, ln.v)
      [] ln.op = "ReplaceItemAtDefault" -> ReplaceItemAtDefault(ln.a)
      [] ln.op = "ReplaceAll" -> ReplaceAll(ln.v)
      [] ln.op = "Clear" -> Clear(ln.a)
      [] ln.op = "FastClear" -> FastClear
      [] ln.op = "EnsureSize" -> EnsureSize(ln.a)
      [] ln.op = "EnsureSizeSet" -> EnsureSizeSet(ln.a)
      [] ln.op = "EnsureSizeX" -> EnsureSizeX(ln.a, ln.b, ln.c)
      [] ln.op = "EnsureSizeSetX" -> EnsureSizeSetX(ln.a, ln.b, ln.c)
      [] ln.op = "EnsureCanAdd" -> EnsureCanAdd(ln.a)
      [] ln.op = "ShrinkToFit" -> ShrinkToFit(ln.a)
      [] ln.op = "Normalize" -> Normalize
      [] ln.op = "IndexOf" -> IndexOf(ln.v, ln.a, ln.b)
      [] ln.op = "LastIndexOf" -> LastIndexOf(ln.v, ln.a, ln.b)
      [] ln.op = "Contains" -> Contains(ln.v, ln.a, ln.b)
      [] ln.op = "StartsWith" -> StartsWith(ln.v)
      [] ln.op = "EndsWith" -> EndsWith(ln.v)
      [] ln.op = "StartsWithQ" -> StartsWithQ(ln.src)
      [] ln.op = "EndsWithQ" -> EndsWithQ(ln.src)
      [] ln.op = "Cmp" -> Cmp(ln.src)
      [] ln.op = "CmpSelf" -> CmpSelf
      [] ln.op = "Iter" -> Iter(ln.a, ln.b)
      [] ln.op = "Swap" -> Swap(ln.a, ln.b)
      [] ln.op = "Reverse" -> Reverse(ln.a, ln.b)
      [] ln.op = "Sort" -> Sort(ln.a, ln.b)
      [] ln.op = "SwapContents" -> SwapContents(ln.src)
      [] ln.op = "SwapContentsRev" -> SwapContentsRev(ln.src)
      [] ln.op = "CopyFrom" -> CopyFrom(ln.src)
      [] ln.op = "Assign" -> Assign(ln.src)
      [] ln.op = "CopyCtor" -> CopyCtor
      [] ln.op = "AssignSelf" -> AssignSelf
      [] ln.op = "CopyFromSelf" -> CopyFromSelf
      [] ln.op = "MoveAssign" -> MoveAssign(ln.src)
      [] ln.op = "Plunder" -> Plunder(ln.src)
      [] ln.op = "MoveCtor" -> MoveCtor
      [] ln.op = "MoveAway" -> MoveAway(ln.src)
      [] ln.op = "Adopt" -> Adopt(ln.src, ln.a, ln.b)
      [] ln.op = "Release" -> Release
      [] OTHER -> FALSE

\* "err" in the specification = any status that is an error (the documentation does not name the code)
Matches(rec, ln) == /\ (rec.st = ln.st \/ (rec.st = "err" /\ ln.st \notin {"ok", ""}) \/ (rec.st = "okerr" /\ ln.st # ""))
                    /\ ln.r >= rec.lo /\ ln.r <= rec.hi
                    /\ rec.rs = ln.rs /\ (rec.o = Undocumented \/ rec.o = ln.o) /\ rec.q = ln.q

TraceInit == Init /\ l = 1 /\ bad = FALSE /\ TLCSet(1, 0)
Reset == s' = <<>> /\ last' = Idle
TraceNext == /\ l <= N
             /\ LET ln == TraceLog[l] IN IF ln.op = "Reset" THEN Reset ELSE Step(ln) /\ Matches(last', ln)
             /\ l' = l + 1 /\ bad' = FALSE
TraceSpec == TraceInit /\ [][TraceNext]_<<vars, l, bad>>

Explained(ln) == Step(ln) /\ Matches(last', ln)
DiagNext == /\ l <= N /\ ~bad
            /\ LET ln == TraceLog[l] IN
                  IF ln.op = "Reset" THEN Reset /\ bad' = FALSE
                  ELSE IF ENABLED Explained(ln) THEN Explained(ln) /\ bad' = FALSE
                  ELSE Step(ln) /\ bad' = TRUE
            /\ l' = l + 1
DiagSpec == TraceInit /\ [][DiagNext]_<<vars, l, bad>>
NoDifference == ~bad

\* progress register (needs -workers 1): the highest line reached; the log is accepted iff it is N + 1
Track == TLCSet(1, IF TLCGet(1) > l THEN TLCGet(1) ELSE l)
Report == PrintT(<<"maxline", TLCGet(1), "of", N>>)
=============================================================================
