SPECIFICATION GenSpec
CONSTANTS
  Vals = {1, 2}
  MaxLen = 3
  Srcs <- Srcs2
  RECORD = TRUE
  Wrong = "insertfails"
INVARIANTS FailureExact
