------------------------------- MODULE Deque -------------------------------
(***************************************************************************)
(* C16: muscle::Queue<ItemType> (util/Queue.h) as an IDEAL double-ended    *)
(* sequence.  The abstract state is the sequence of items only: head       *)
(* offset, capacity, inline/heap storage are NOT part of it - the property *)
(* says they must never show.  Items are small integers; 0 is the DEFAULT  *)
(* item (what ItemType() is), Vals are the values operations add.          *)
(*                                                                         *)
(* One action per public call of Queue.h, named after it, with the result  *)
(* and the failure condition its HEADER COMMENT documents:                 *)
(*   status results  st : "ok" | "notfound" (B_DATA_NOT_FOUND)             *)
(*                        | "badarg" (B_BAD_ARGUMENT) | "" (call returns   *)
(*                        no status)                                       *)
(*   integer results r  : given as a range lo..hi (lo = hi unless the      *)
(*                        documentation leaves a choice)                   *)
(*   sequence results rs (iterators)                                       *)
(*   q : full contents after the call;  o : contents of the OTHER queue    *)
(*   taking part in the call (argument of copy / swap / move / multi-add)  *)
(*   after the call.                                                       *)
(* Indices are 0-based as in the C++ API; sequences are 1-based as in TLA+.*)
(* NoLimit (99) stands for MUSCLE_NO_LIMIT: every size here is far below   *)
(* it, and every documented use of the value is "capped to the size".      *)
(*                                                                         *)
(* Where the documentation is silent the action allows Either outcome      *)
(* (InsertItemsAt beyond the end); where it states a precondition ("must   *)
(* be a valid index", "assumes the Queue is sorted") the action is only    *)
(* enabled inside it.                                                      *)
(*                                                                         *)
(* The same actions serve three purposes:                                  *)
(*   - GenSpec: every action with arguments from small menus; model        *)
(*     checked against the laws at the bottom (the property of an ideal    *)
(*     sequence stated independently of the definitions), and dumped as a  *)
(*     state graph whose transitions are replayed on the real Queue        *)
(*     (`last` = the step record; "idle" states in between keep the graph  *)
(*     linear in the number of transitions);                               *)
(*   - DequeTrace.tla: validates call logs recorded from the real Queue;   *)
(*   - Wrong # "none" switches in ONE deliberately wrong definition: the   *)
(*     vacuity guard of the laws (each law is violated by one of them).    *)
(***************************************************************************)
EXTENDS Integers, Sequences, FiniteSets, TLC

CONSTANTS Vals,     \* values that operations add (positive integers)
          MaxLen,   \* generation only: adds that would make the sequence longer are not generated
          Srcs,     \* generation only: menu of argument queues (set of sequences over Vals \cup {0})
          RECORD,   \* TRUE: `last` records every step
          Wrong     \* "none", or the name of one deliberately wrong definition (vacuity guard)

Default == 0
NoLimit == 99
\* Boundary values of the argument TYPE (uint32 index / count parameters, int32 strides), written as small codes because TLC's integers are 32 bit wide
\* and because all that matters about them here is that they are larger than every size: 95 = 0x7FFFFFFF, 96 = 0x80000000, 97 = 0xFFFFFFFE,
\* 99 = 0xFFFFFFFF (MUSCLE_NO_LIMIT, also what a failed IndexOf() gives when it is used as an index); -95 / 95 as a stride = INT32_MIN / INT32_MAX.
Big  == {95, 96, 97, 99}
Big2 == {96, 99}
Huge(n) == n >= 90
Items   == Vals \cup {Default}

VARIABLES s,      \* the sequence
          last    \* the step that led here
vars == <<s, last>>

------------------------------------------------------------------------------
(* sequence vocabulary *)
Min(x, y) == IF x < y THEN x ELSE y
Max(x, y) == IF x > y THEN x ELSE y
Take(q, n) == SubSeq(q, 1, Min(n, Len(q)))                 \* first n items (all if fewer)
Drop(q, n) == SubSeq(q, Min(n, Len(q)) + 1, Len(q))        \* all but the first n items
\* the items the multi-item calls take from (queue q, startIndex, numItems): "if this number is too large, it will be capped"
SliceLen(q, start, num) == Min(num, IF start < Len(q) THEN Len(q) - start ELSE 0)
Slice(q, start, num) == SubSeq(q, start + 1, start + (IF Wrong = "slice" THEN SliceLen(q, start, num + 1) ELSE SliceLen(q, start, num)))
RECURSIVE Rev(_)
Rev(q) == IF q = <<>> THEN <<>> ELSE Append(Rev(Tail(q)), Head(q))
RECURSIVE Defaults(_)
Defaults(n) == IF n <= 0 THEN <<>> ELSE <<Default>> \o Defaults(n - 1)
InsertAt(q, i, x)  == Take(q, i) \o x \o Drop(q, i)        \* x is a sequence; 0 <= i <= Len(q)
RemoveAt(q, i)     == Take(q, i) \o Drop(q, i + 1)         \* 0 <= i < Len(q)
ReplaceAt(q, i, v) == [q EXCEPT ![i + 1] = v]
SwapAt(q, i, j)    == [q EXCEPT ![i + 1] = q[j + 1], ![j + 1] = q[i + 1]]
Sorted(q)   == SortSeq(q, LAMBDA x, y : x < y)
IsSorted(q) == \A i \in 1..(Len(q) - 1) : q[i] <= q[i + 1]
\* [from, to) with `to` clipped to the length; nothing if the range is empty
SortRange(q, from, to) == LET hi == Min(to, Len(q)) IN
                          IF from < hi THEN Take(q, IF Wrong = "sortfrom" THEN 0 ELSE from) \o Sorted(SubSeq(q, (IF Wrong = "sortfrom" THEN 0 ELSE from) + 1, hi)) \o Drop(q, hi) ELSE q
RevRange(q, from, to)  == LET hi == Min(IF Wrong = "revto" THEN to + 1 ELSE to, Len(q)) IN
                          IF from < hi THEN Take(q, from) \o Rev(SubSeq(q, from + 1, hi)) \o Drop(q, hi) ELSE q
ItemsOf(q) == {q[i] : i \in 1..Len(q)}
Count(q, v) == Cardinality({i \in 1..Len(q) : q[i] = v})
LeastOf(S)  == CHOOSE i \in S : \A j \in S : i <= j
MostOf(S)   == CHOOSE i \in S : \A j \in S : i >= j
\* "first index of (item) ... startAt: first index to look at; endAtPlusOne: clamped to the number of items"
IndexOfR(q, v, from, to) == LET S == {i \in from..(Min(IF Wrong = "indexofend" THEN to + 1 ELSE to, Len(q)) - 1) : q[i + 1] = v} IN IF S = {} THEN -1 ELSE LeastOf(S)
\* "searches backwards; startAt clamped down to numItems-1; endAt the final index to look at"
LastIndexOfR(q, v, startAt, endAt) == LET S == {i \in endAt..Min(startAt, Len(q) - 1) : q[i + 1] = v} IN IF S = {} THEN -1 ELSE MostOf(S)
\* lexicographic comparison ("like strcmp() except for vectors"): -1, 0, +1
Compare(x, y) == LET n == Min(Len(x), Len(y))
                     D == {i \in 1..n : x[i] # y[i]} IN
                 IF D # {} THEN (IF x[LeastOf(D)] < y[LeastOf(D)] THEN -1 ELSE 1)
                 ELSE IF Len(x) < Len(y) THEN (IF Wrong = "cmpprefix" THEN 0 ELSE -1) ELSE IF Len(x) > Len(y) THEN 1 ELSE 0
WithoutAll(q, v) == SelectSeq(q, LAMBDA x : x # v)
RECURSIVE Dedup(_)      \* one instance of each run of equal neighbours
Dedup(q) == IF Len(q) <= 1 THEN q ELSE IF q[1] = q[2] THEN Dedup(Tail(q)) ELSE <<q[1]>> \o Dedup(Tail(q))
RECURSIVE Visit(_, _, _)   \* what an iterator started at index i with the given stride returns until its index is not valid
Visit(q, i, stride) == IF i < 0 \/ i >= Len(q) THEN <<>> ELSE <<q[i + 1]>> \o Visit(q, i + stride, stride)
FirstPos(q, v) == LeastOf({i \in 0..(Len(q) - 1) : q[i + 1] = v})
LastPos(q, v)  == MostOf({i \in 0..(Len(q) - 1) : q[i + 1] = v})

------------------------------------------------------------------------------
(* step records *)
Idle == [op |-> "idle"]
Apply(op, a, b, c, v, src, st, lo, hi, rs, q2, o2) ==
    /\ s' = q2
    /\ last' = IF RECORD THEN [op |-> op, a |-> a, b |-> b, c |-> c, v |-> v, src |-> src, st |-> st, lo |-> lo, hi |-> hi,
                               rs |-> rs, pre |-> s, q |-> q2, o |-> o2]
               ELSE last
\* a call that returns a status and cannot fail / returns nothing / fails and leaves everything as it was / returns an integer
Ok(op, a, b, c, v, src, q2, o2)     == Apply(op, a, b, c, v, src, "ok", 0, 0, <<>>, q2, o2)
Void(op, a, b, c, v, src, q2, o2)   == Apply(op, a, b, c, v, src, "", 0, 0, <<>>, q2, o2)
Fail(op, a, b, c, v, src, st)       == Apply(op, a, b, c, v, src, st, 0, 0, <<>>, IF Wrong = "failchanges" THEN Take(s, Len(s) - 1) ELSE s, src)
Num(op, a, b, c, v, src, r, q2, o2) == Apply(op, a, b, c, v, src, "", r, r, <<>>, q2, o2)
Query(op, a, b, c, v, src, r)       == Num(op, a, b, c, v, src, r, IF Wrong = "querymutates" /\ r = -1 THEN Append(s, Default) ELSE s, src)
Bool(x) == IF x THEN 1 ELSE 0
Valid(i) == i >= 0 /\ i < Len(s)

------------------------------------------------------------------------------
(* adding *)
AddTail(v)         == Ok("AddTail", 0, 0, 0, v, <<>>, Append(s, v), <<>>)
AddTailDefault     == Ok("AddTailDefault", 0, 0, 0, 0, <<>>, Append(s, IF Wrong = "type" THEN -1 ELSE Default), <<>>)   \* AddTail(): "appends a default-initialized item"
AddTailGet         == Num("AddTailGet", 0, 0, 0, 0, <<>>, 1, Append(s, Default), <<>>)   \* AddTailAndGet(): r = the returned pointer is not NULL (POD items: the binding writes the default item through it, "uninitialized" otherwise)
AddTailGetV(v)     == Num("AddTailGetV", 0, 0, 0, v, <<>>, 1, Append(s, v), <<>>)        \* AddTailAndGet(item)
AddTailOwn(j)      == Valid(j) /\ Ok("AddTailOwn", j, 0, 0, 0, <<>>, Append(s, s[j + 1]), <<>>)   \* AddTail(q[j]): the argument is one of the Queue's own items
AddTailIfAbsent(v) == Ok("AddTailIfAbsent", 0, 0, 0, v, <<>>, IF v \in ItemsOf(s) THEN s ELSE Append(s, v), <<>>)
AddHead(v)         == Ok("AddHead", 0, 0, 0, v, <<>>, IF Wrong = "addhead" THEN Append(s, v) ELSE <<v>> \o s, <<>>)
AddHeadDefault     == Ok("AddHeadDefault", 0, 0, 0, 0, <<>>, <<Default>> \o s, <<>>)
AddHeadGet         == Num("AddHeadGet", 0, 0, 0, 0, <<>>, 1, <<Default>> \o s, <<>>)
AddHeadGetV(v)     == Num("AddHeadGetV", 0, 0, 0, v, <<>>, 1, <<v>> \o s, <<>>)
AddHeadOwn(j)      == Valid(j) /\ Ok("AddHeadOwn", j, 0, 0, 0, <<>>, <<s[j + 1]>> \o s, <<>>)
AddHeadIfAbsent(v) == Ok("AddHeadIfAbsent", 0, 0, 0, v, <<>>, IF v \in ItemsOf(s) THEN s ELSE <<v>> \o s, <<>>)
\* AddTailMulti(queue, startIndex, numItems) / (array, n) / with the Queue itself as the argument / with an array inside the Queue's own storage
AddTailMulti(src, st, n)  == Ok("AddTailMulti", st, n, 0, 0, src, s \o Slice(src, st, n), src)
AddTailMultiArr(src)      == Ok("AddTailMultiArr", 0, 0, 0, 0, src, s \o src, src)
AddTailMultiSelf(st, n)   == Ok("AddTailMultiSelf", st, n, 0, 0, <<>>, s \o Slice(s, st, n), <<>>)
AddTailMultiOwnArr(st, n) == st + n <= Len(s) /\ n >= 1 /\ Ok("AddTailMultiOwnArr", st, n, 0, 0, <<>>, s \o SubSeq(s, st + 1, st + n), <<>>)
\* "a.AddHead(b): a now contains b's items followed by a's"
AddHeadMulti(src, st, n)  == Ok("AddHeadMulti", st, n, 0, 0, src, Slice(src, st, n) \o s, src)
AddHeadMultiArr(src)      == Ok("AddHeadMultiArr", 0, 0, 0, 0, src, src \o s, src)
AddHeadMultiSelf(st, n)   == Ok("AddHeadMultiSelf", st, n, 0, 0, <<>>, Slice(s, st, n) \o s, <<>>)
AddHeadMultiOwnArr(st, n) == st + n <= Len(s) /\ n >= 1 /\ Ok("AddHeadMultiOwnArr", st, n, 0, 0, <<>>, SubSeq(s, st + 1, st + n) \o s, <<>>)

(* inserting: "InsertItemAt(0) is the same as AddHead(item), InsertItemAt(GetNumItems()) (or larger) is the same as AddTail(item)" *)
InsPos(i) == Min(i, Len(s))
InsertItemAt(i, v)     == IF Wrong = "insertfails" /\ i > Len(s) THEN Fail("InsertItemAt", i, 0, 0, v, <<>>, "badarg")
                          ELSE Ok("InsertItemAt", i, 0, 0, v, <<>>, InsertAt(s, InsPos(i), <<v>>), <<>>)
InsertItemAtDefault(i) == Ok("InsertItemAtDefault", i, 0, 0, 0, <<>>, InsertAt(s, InsPos(i), <<Default>>), <<>>)
InsertItemAtOwn(i, j)  == Valid(j) /\ Ok("InsertItemAtOwn", i, j, 0, 0, <<>>, InsertAt(s, InsPos(i), <<s[j + 1]>>), <<>>)
\* the multi-item versions do not say what an index beyond the end means: Either the single-item reading (append) or a failure that changes nothing
InsertMany(op, i, st, n, src, x, o2) ==
    \/ Ok(op, i, st, n, 0, src, InsertAt(s, InsPos(i), x), o2)
    \/ i > Len(s) /\ x # <<>> /\ Fail(op, i, st, n, 0, src, "err")
InsertItemsAt(i, src, st, n)  == InsertMany("InsertItemsAt", i, st, n, src, Slice(src, st, n), src)
InsertItemsAtArr(i, src)      == InsertMany("InsertItemsAtArr", i, 0, 0, src, src, src)
InsertItemsAtSelf(i, st, n)   == InsertMany("InsertItemsAtSelf", i, st, n, <<>>, Slice(s, st, n), <<>>)
\* "inserts the item at the position necessary to keep the Queue in sorted order; assumes the Queue is already sorted;
\*  returns the index at which the item was inserted" - among equal items the documentation leaves the position open
InsertSorted(v) == IsSorted(s) /\ LET lo == Cardinality({i \in 1..Len(s) : s[i] < v})
                                      hi == Cardinality({i \in 1..Len(s) : s[i] <= v})
                                  IN Apply("InsertSorted", 0, 0, 0, v, <<>>, "", lo, hi, <<>>, InsertAt(s, lo, <<v>>), <<>>)

(* removing: "B_DATA_NOT_FOUND if the Queue was empty"; "B_BAD_ARGUMENT on failure (ie bad index)" *)
RemoveHead        == IF s = <<>> THEN Fail("RemoveHead", 0, 0, 0, 0, <<>>, "notfound") ELSE Ok("RemoveHead", 0, 0, 0, 0, <<>>, Tail(s), <<>>)
RemoveHeadRet     == IF s = <<>> THEN Fail("RemoveHeadRet", 0, 0, 0, 0, <<>>, "notfound")
                     ELSE Apply("RemoveHeadRet", 0, 0, 0, 0, <<>>, "ok", Head(s), Head(s), <<>>, Tail(s), <<>>)
RemoveHeadDef     == IF s = <<>> THEN Num("RemoveHeadDef", 0, 0, 0, 0, <<>>, Default, s, <<>>) ELSE Num("RemoveHeadDef", 0, 0, 0, 0, <<>>, Head(s), Tail(s), <<>>)
RemoveHeadMulti(n) == Num("RemoveHeadMulti", n, 0, 0, 0, <<>>, Min(n, Len(s)), Drop(s, n), <<>>)     \* "returns the actual number of items removed"
RemoveTail        == IF s = <<>> THEN Fail("RemoveTail", 0, 0, 0, 0, <<>>, "notfound") ELSE Ok("RemoveTail", 0, 0, 0, 0, <<>>, Take(s, Len(s) - 1), <<>>)
RemoveTailRet     == IF s = <<>> THEN Fail("RemoveTailRet", 0, 0, 0, 0, <<>>, "notfound")
                     ELSE Apply("RemoveTailRet", 0, 0, 0, 0, <<>>, "ok", s[Len(s)], s[Len(s)], <<>>, Take(s, Len(s) - 1), <<>>)
RemoveTailDef     == IF s = <<>> THEN Num("RemoveTailDef", 0, 0, 0, 0, <<>>, Default, s, <<>>) ELSE Num("RemoveTailDef", 0, 0, 0, 0, <<>>, s[Len(s)], Take(s, Len(s) - 1), <<>>)
RemoveTailMulti(n) == Num("RemoveTailMulti", n, 0, 0, 0, <<>>, Min(n, Len(s)), Take(s, Len(s) - Min(n, Len(s))), <<>>)
RemoveItemAt(i)    == IF Valid(i) THEN Ok("RemoveItemAt", i, 0, 0, 0, <<>>, RemoveAt(s, i), <<>>) ELSE Fail("RemoveItemAt", i, 0, 0, 0, <<>>, "badarg")
RemoveItemAtRet(i) == IF Valid(i) THEN Apply("RemoveItemAtRet", i, 0, 0, 0, <<>>, "ok", s[i + 1], s[i + 1], <<>>, RemoveAt(s, i), <<>>)
                      ELSE Fail("RemoveItemAtRet", i, 0, 0, 0, <<>>, "badarg")
RemoveItemAtDef(i) == IF Valid(i) THEN Num("RemoveItemAtDef", i, 0, 0, 0, <<>>, s[i + 1], RemoveAt(s, i), <<>>) ELSE Num("RemoveItemAtDef", i, 0, 0, 0, <<>>, Default, s, <<>>)
RemoveFirst(v)  == IF v \in ItemsOf(s) THEN Ok("RemoveFirst", 0, 0, 0, v, <<>>, RemoveAt(s, FirstPos(s, v)), <<>>) ELSE Fail("RemoveFirst", 0, 0, 0, v, <<>>, "notfound")
RemoveLast(v)   == IF v \in ItemsOf(s) THEN Ok("RemoveLast", 0, 0, 0, v, <<>>, RemoveAt(s, LastPos(s, v)), <<>>) ELSE Fail("RemoveLast", 0, 0, 0, v, <<>>, "notfound")
RemoveAll(v)    == Num("RemoveAll", 0, 0, 0, v, <<>>, Count(s, v), IF Wrong = "removeall" /\ v \in ItemsOf(s) THEN RemoveAt(s, FirstPos(s, v)) ELSE WithoutAll(s, v), <<>>)
RemoveAllOwn(j) == Valid(j) /\ Num("RemoveAllOwn", j, 0, 0, 0, <<>>, Count(s, s[j + 1]), WithoutAll(s, s[j + 1]), <<>>)
RemoveDup       == Num("RemoveDup", 0, 0, 0, 0, <<>>, Len(s) - Len(Dedup(Sorted(s))), Dedup(Sorted(s)), <<>>)     \* "sorts the Queue, then removes any duplicate items"
RemoveSortedDup == IsSorted(s) /\ Num("RemoveSortedDup", 0, 0, 0, 0, <<>>, Len(s) - Len(Dedup(s)), Dedup(s), <<>>)  \* "assumes that the items are already in sorted order"

(* reading and replacing by index *)
GetItemAt(i)         == IF Valid(i) THEN Apply("GetItemAt", i, 0, 0, 0, <<>>, "ok", s[i + 1], s[i + 1], <<>>, s, <<>>) ELSE Fail("GetItemAt", i, 0, 0, 0, <<>>, "badarg")
GetItemPtr(i)        == Query("GetItemPtr", i, 0, 0, 0, <<>>, IF Valid(i) THEN s[i + 1] ELSE -1)      \* GetItemAt(i): "NULL if (index) was invalid" is logged as -1
GetWithDefault(i)    == Num("GetWithDefault", i, 0, 0, 0, <<>>, IF Valid(i) THEN s[i + 1] ELSE Default, s, <<>>)
GetWithDefaultV(i, v) == Num("GetWithDefaultV", i, 0, 0, v, <<>>, IF Valid(i) THEN s[i + 1] ELSE v, s, <<>>)
HeadWithDefault      == Num("HeadWithDefault", 0, 0, 0, 0, <<>>, IF s = <<>> THEN Default ELSE Head(s), s, <<>>)
TailWithDefault      == Num("TailWithDefault", 0, 0, 0, 0, <<>>, IF s = <<>> THEN Default ELSE s[Len(s)], s, <<>>)
ReplaceItemAt(i, v)  == IF Valid(i) THEN Ok("ReplaceItemAt", i, 0, 0, v, <<>>, ReplaceAt(s, i, v), <<>>) ELSE Fail("ReplaceItemAt", i, 0, 0, v, <<>>, "badarg")
ReplaceItemAtDefault(i) == IF Valid(i) THEN Ok("ReplaceItemAtDefault", i, 0, 0, 0, <<>>, ReplaceAt(s, i, Default), <<>>) ELSE Fail("ReplaceItemAtDefault", i, 0, 0, 0, <<>>, "badarg")
ReplaceAll(v)        == Void("ReplaceAll", 0, 0, 0, v, <<>>, [i \in 1..Len(s) |-> v], <<>>)

(* size *)
Clear(release) == Void("Clear", release, 0, 0, 0, <<>>, <<>>, <<>>)
FastClear      == Void("FastClear", 0, 0, 0, 0, <<>>, <<>>, <<>>)      \* documented to leave owning items in the array: bound for trivially copyable items only
\* a number of slots that cannot be had (type boundary values) is a failure that changes nothing: "B_OUT_OF_MEMORY or B_RESOURCE_LIMIT on failure"
EnsureSize(n)  == IF Huge(n) THEN Fail("EnsureSize", n, 0, 0, 0, <<>>, "err") ELSE Ok("EnsureSize", n, 0, 0, 0, <<>>, s, <<>>)          \* "the number of items officially in the Queue remains the same as before"
\* "adding or removing [default] items to (from) the tail of the Queue until the Queue is the specified size"
EnsureSizeSet(n) == IF Huge(n) THEN Fail("EnsureSizeSet", n, 0, 0, 0, <<>>, "err") ELSE Ok("EnsureSizeSet", n, 0, 0, 0, <<>>,
                       IF n >= Len(s) THEN s \o (IF Wrong = "stale" THEN [i \in 1..(n - Len(s)) |-> 1] ELSE Defaults(n - Len(s))) ELSE Take(s, n), <<>>)
SetSize(n) == IF n >= Len(s) THEN s \o Defaults(n - Len(s)) ELSE Take(s, n)
\* numSlots + extraReallocItems beyond 32 bits: B_RESOURCE_LIMIT when the call would have to reallocate, success when it has nothing to do - which of the two
\* depends on the capacity, which is not part of the ideal sequence: "okerr" = success or a failure, the contents unchanged either way
EnsureSizeX(n, extra, shrink) == IF Huge(n) THEN Fail("EnsureSizeX", n, extra, shrink, 0, <<>>, "err")
                                 ELSE IF Huge(extra) THEN Apply("EnsureSizeX", n, extra, shrink, 0, <<>>, "okerr", 0, 0, <<>>, s, <<>>)
                                 ELSE Ok("EnsureSizeX", n, extra, shrink, 0, <<>>, s, <<>>)     \* EnsureSize(n, false, extraReallocItems, allowShrink): only the allocation changes, whatever n is
EnsureSizeSetX(n, extra, shrink) == IF Huge(n) THEN Fail("EnsureSizeSetX", n, extra, shrink, 0, <<>>, "err") ELSE Ok("EnsureSizeSetX", n, extra, shrink, 0, <<>>, SetSize(n), <<>>)   \* EnsureSize(n, true, extraReallocItems, allowShrink): "[extra] is ignored if (setNumItems) is true"
EnsureCanAdd(n) == IF Huge(n) THEN Fail("EnsureCanAdd", n, 0, 0, 0, <<>>, "err") ELSE Ok("EnsureCanAdd", n, 0, 0, 0, <<>>, s, <<>>)     \* "B_RESOURCE_LIMIT" when GetNumItems()+n overflows
ShrinkToFit(n)  == IF Huge(n) THEN Fail("ShrinkToFit", n, 0, 0, 0, <<>>, "err") ELSE Ok("ShrinkToFit", n, 0, 0, 0, <<>>, s, <<>>)
Normalize       == Void("Normalize", 0, 0, 0, 0, <<>>, s, <<>>)

(* searching and comparing *)
IndexOf(v, from, to)         == Query("IndexOf", from, to, 0, v, <<>>, IndexOfR(s, v, from, to))
LastIndexOf(v, startAt, endAt) == Query("LastIndexOf", startAt, endAt, 0, v, <<>>, LastIndexOfR(s, v, startAt, endAt))
Contains(v, from, to)        == Num("Contains", from, to, 0, v, <<>>, Bool(IndexOfR(s, v, from, to) >= 0), s, <<>>)
StartsWith(v)    == Num("StartsWith", 0, 0, 0, v, <<>>, Bool(s # <<>> /\ Head(s) = v), s, <<>>)
EndsWith(v)      == Num("EndsWith", 0, 0, 0, v, <<>>, Bool(s # <<>> /\ s[Len(s)] = v), s, <<>>)
StartsWithQ(src) == Num("StartsWithQ", 0, 0, 0, 0, src, Bool(Len(src) <= Len(s) /\ Take(s, Len(src)) = src), s, src)
EndsWithQ(src)   == Num("EndsWithQ", 0, 0, 0, 0, src, Bool(Len(src) <= Len(s) /\ Drop(s, Len(s) - Len(src)) = src), s, src)
Cmp(src)         == Num("Cmp", 0, 0, 0, 0, src, Compare(s, src), s, src)        \* r = what ==, !=, <, <=, >, >= all have to agree with
CmpSelf          == Num("CmpSelf", 0, 0, 0, 0, <<>>, 0, s, <<>>)
Iter(start, stride) == Apply("Iter", start, stride, 0, 0, <<>>, "", 0, 0, Visit(s, start, stride), s, <<>>)

(* rearranging.  Swap: "be sure to only use valid indices" *)
Swap(i, j)        == Valid(i) /\ Valid(j) /\ Void("Swap", i, j, 0, 0, <<>>, SwapAt(s, i, j), <<>>)
Reverse(from, to) == Void("Reverse", from, to, 0, 0, <<>>, RevRange(s, from, to), <<>>)
Sort(from, to)    == Void("Sort", from, to, 0, 0, <<>>, SortRange(s, from, to), <<>>)

(* whole-queue operations; src = contents of the other Queue before the call *)
SwapContents(src) == Void("SwapContents", 0, 0, 0, 0, src, src, s)
SwapContentsRev(src) == Void("SwapContentsRev", 0, 0, 0, 0, src, src, s)     \* the same exchange called on the other Queue: other.SwapContents(this one)
CopyFrom(src)     == Ok("CopyFrom", 0, 0, 0, 0, src, src, src)
Assign(src)       == Void("Assign", 0, 0, 0, 0, src, src, src)
CopyCtor          == Void("CopyCtor", 0, 0, 0, 0, <<>>, s, s)       \* the Queue is replaced by a copy-constructed one; o = the original
AssignSelf        == Void("AssignSelf", 0, 0, 0, 0, <<>>, s, <<>>)
CopyFromSelf      == Ok("CopyFromSelf", 0, 0, 0, 0, <<>>, s, <<>>)
\* Plunder: "On return, (rhs) will be empty, and this Queue will contain the contents that (rhs) previously contained."
\* The move constructor / move assignment only say "sets this object to become the same as (rhs) was, by stealing the state of (rhs)":
\* what the moved-from Queue holds afterwards is not documented (Undocumented); it must still be a coherent Queue (the binding reads it through every route).
Undocumented == <<-1>>
Plunder(src)      == Void("Plunder", 0, 0, 0, 0, src, src, <<>>)
MoveAssign(src)   == Void("MoveAssign", 0, 0, 0, 0, src, src, Undocumented)
MoveCtor          == Void("MoveCtor", 0, 0, 0, 0, <<>>, s, Undocumented)    \* the Queue is replaced by one move-constructed from it; o = the moved-from original
MoveAway(src)     == Void("MoveAway", 0, 0, 0, 0, src, <<>>, s)    \* other = std::move(this one); this one.Clear() (the way to re-use a moved-from object): o = what the other one received
\* AdoptRawDataArray(numItemsInArray, array, validItemCount): array = src followed by default items
Adopt(src, slots, valid) == slots >= Len(src) /\ Void("Adopt", slots, valid, 0, 0, src, Take(src \o Defaults(slots - Len(src)), Min(slots, valid)), src)
Release           == Void("Release", 0, 0, 0, 0, <<>>, <<>>, <<>>)      \* ReleaseRawDataArray(): "has the side effect of clearing this Queue"

------------------------------------------------------------------------------
(* generation: every action, arguments from small menus, never beyond MaxLen *)
Idx   == 0..Len(s)                 \* the valid indices and the first invalid one
Far   == Len(s) + 2
Fits(n) == Len(s) + n <= MaxLen
Cuts  == {<<0, NoLimit>>, <<1, NoLimit>>, <<0, 1>>, <<1, 1>>, <<3, NoLimit>>, <<96, NoLimit>>, <<1, 96>>, <<97, 95>>}      \* <<startIndex, numItems>>
Cuts2 == {<<0, NoLimit>>, <<1, 1>>, <<0, 96>>, <<NoLimit, 1>>}
Ranges == {<<0, NoLimit>>, <<1, NoLimit>>, <<0, 2>>, <<1, 3>>, <<2, 2>>, <<3, 1>>, <<5, NoLimit>>, <<0, 96>>, <<96, NoLimit>>, <<97, 95>>, <<1, 95>>}    \* <<from, to>>

Ready == ~(RECORD /\ last.op # "idle")
GenAdd == Ready /\
    \/ Fits(1) /\ \/ \E v \in Vals : AddTail(v) \/ AddHead(v) \/ AddTailGetV(v) \/ AddHeadGetV(v)
                  \/ AddTailDefault \/ AddHeadDefault \/ AddTailGet \/ AddHeadGet
                  \/ \E j \in Idx : AddTailOwn(j) \/ AddHeadOwn(j)
                  \/ \E i \in Idx \cup {Far}, v \in Vals : InsertItemAt(i, v)
                  \/ \E i \in Big : InsertItemAt(i, 1)
                  \/ \E i \in Idx \cup {Far} \cup Big2 : InsertItemAtDefault(i)
                  \/ \E i \in Idx \cup Big2, j \in {0, Len(s) - 1} : InsertItemAtOwn(i, j)
                  \/ \E v \in Vals : InsertSorted(v)
    \/ \E v \in Vals : (Fits(1) \/ v \in ItemsOf(s)) /\ (AddTailIfAbsent(v) \/ AddHeadIfAbsent(v))
    \/ \E src \in Srcs, c \in Cuts : Fits(SliceLen(src, c[1], c[2])) /\ (AddTailMulti(src, c[1], c[2]) \/ AddHeadMulti(src, c[1], c[2]))
    \/ \E src \in Srcs : Fits(Len(src)) /\ (AddTailMultiArr(src) \/ AddHeadMultiArr(src))
    \/ \E c \in Cuts : Fits(SliceLen(s, c[1], c[2])) /\ (AddTailMultiSelf(c[1], c[2]) \/ AddHeadMultiSelf(c[1], c[2]))
    \/ \E i \in Idx, src \in Srcs, c \in Cuts2 : Fits(SliceLen(src, c[1], c[2])) /\ InsertItemsAt(i, src, c[1], c[2])
    \/ \E i \in Big2 : InsertItemsAt(i, <<>>, 0, NoLimit)       \* nothing to insert: documented to succeed wherever
    \/ \E i \in Idx, src \in Srcs : Fits(Len(src)) /\ InsertItemsAtArr(i, src)
    \/ \E i \in Idx, c \in Cuts2 : Fits(SliceLen(s, c[1], c[2])) /\ InsertItemsAtSelf(i, c[1], c[2])
GenRemove == Ready /\
    \/ RemoveHead \/ RemoveHeadRet \/ RemoveHeadDef \/ RemoveTail \/ RemoveTailRet \/ RemoveTailDef
    \/ \E n \in {0, 1, 2, 9} \cup Big : RemoveHeadMulti(n) \/ RemoveTailMulti(n)
    \/ \E i \in Idx \cup {Far} \cup Big : RemoveItemAt(i) \/ RemoveItemAtRet(i) \/ RemoveItemAtDef(i)
    \/ \E v \in Vals : RemoveFirst(v) \/ RemoveLast(v) \/ RemoveAll(v)
    \/ \E j \in Idx : RemoveAllOwn(j)
    \/ RemoveDup \/ RemoveSortedDup
    \/ \E r \in {0, 1} : Clear(r)
    \/ Release
GenIndex == Ready /\
    \/ \E i \in Idx \cup {Far} \cup Big : GetItemAt(i) \/ GetItemPtr(i) \/ GetWithDefault(i) \/ ReplaceItemAtDefault(i)
    \/ \E i \in Idx, v \in Vals : ReplaceItemAt(i, v) \/ GetWithDefaultV(i, v)
    \/ \E i \in Big : ReplaceItemAt(i, 1) \/ GetWithDefaultV(i, 2)
    \/ \E v \in Vals : ReplaceAll(v)
    \/ HeadWithDefault \/ TailWithDefault
GenSize == Ready /\
    \/ \E n \in {0, 2, 4, 5, 8} \cup Big2 : EnsureSize(n)
    \/ \E n \in (0..MaxLen) \cup Big2 : EnsureSizeSet(n)
    \/ \E n \in Big2, sh \in {0, 1} : EnsureSizeX(n, 0, sh) \/ EnsureSizeSetX(n, 0, sh)
    \/ \E n \in {0, 3, 6} \cup Big2, e \in Big2, sh \in {0, 1} : EnsureSizeX(n, e, sh)
    \/ \E n \in {0, 2, 4}, e \in Big2, sh \in {0, 1} : n <= MaxLen /\ EnsureSizeSetX(n, e, sh)      \* "[extraReallocItems] is ignored if (setNumItems) is true", whatever its value
    \/ \E x \in {<<0, 0, 1>>, <<2, 0, 1>>, <<4, 0, 1>>, <<4, 2, 0>>, <<3, 2, 1>>, <<6, 0, 0>>} : EnsureSizeX(x[1], x[2], x[3])
    \/ \E x \in {<<0, 0, 1>>, <<1, 0, 1>>, <<2, 2, 1>>, <<3, 0, 0>>, <<4, 0, 1>>} : x[1] <= MaxLen /\ EnsureSizeSetX(x[1], x[2], x[3])
    \/ \E n \in {1, 3, 6} \cup Big : EnsureCanAdd(n)
    \/ \E n \in {0, 1, 4} \cup Big : ShrinkToFit(n)
    \/ Normalize
GenQuery == Ready /\
    \/ \E v \in Vals, r \in {<<0, NoLimit>>, <<1, NoLimit>>, <<0, 2>>, <<2, 1>>, <<0, 96>>, <<96, NoLimit>>, <<97, 95>>} : IndexOf(v, r[1], r[2])
    \/ \E v \in Vals, r \in {<<NoLimit, 0>>, <<2, 0>>, <<NoLimit, 1>>, <<1, 2>>, <<0, 5>>, <<96, 0>>, <<95, 1>>, <<NoLimit, 96>>, <<97, NoLimit>>} : LastIndexOf(v, r[1], r[2])
    \/ IndexOf(Default, 0, NoLimit) \/ LastIndexOf(Default, NoLimit, 0)
    \/ \E v \in Vals : Contains(v, 0, NoLimit) \/ Contains(v, 1, 3) \/ Contains(v, 96, NoLimit) \/ Contains(v, 0, 96) \/ StartsWith(v) \/ EndsWith(v)
    \/ \E src \in Srcs \cup {Take(s, 2), Drop(s, 1), s} : StartsWithQ(src) \/ EndsWithQ(src) \/ Cmp(src)
    \/ Cmp(Take(s, Len(s) - 1)) \/ (Len(s) < MaxLen /\ Cmp(Append(s, Default))) \/ CmpSelf
    \/ \E x \in {<<0, 1>>, <<1, 2>>, <<0, 3>>} : Iter(x[1], x[2])
    \/ Iter(Len(s) - 1, -1) \/ Iter(Len(s), -1) \/ Iter(Len(s) - 1, -2)
    \/ \E i \in Big : Iter(i, 1) \/ Iter(i, -1)
    \/ Iter(0, 95) \/ Iter(Len(s) - 1, -95) \/ Iter(1, -95) \/ Iter(0, -95)
GenArrange == Ready /\
    \/ \E i, j \in Idx : i <= j /\ Swap(i, j)
    \/ \E r \in Ranges : Reverse(r[1], r[2]) \/ Sort(r[1], r[2])
GenWhole == Ready /\
    \/ \E src \in Srcs : SwapContents(src) \/ SwapContentsRev(src) \/ CopyFrom(src) \/ Assign(src) \/ MoveAssign(src) \/ Plunder(src) \/ MoveAway(src)
    \/ CopyCtor \/ AssignSelf \/ CopyFromSelf \/ MoveCtor
    \/ \E src \in Srcs, x \in {<<0, NoLimit>>, <<2, 1>>, <<0, 0>>} : Adopt(src, Len(src) + x[1], IF x[2] = 0 THEN NoLimit ELSE x[2])

\* menus of argument queues for the configurations (a cfg file cannot spell a tuple): Srcs <- Srcs3 / Srcs2
Srcs3 == {<<>>, <<1>>, <<2, 3>>, <<3, 1, 2>>, <<2, 2, 1, 3>>}
Srcs2 == {<<>>, <<1>>, <<2, 1>>, <<1, 2, 2>>}

Ack == ~Ready /\ s' = s /\ last' = Idle
Init == s = <<>> /\ last = Idle
GenNext == Ack \/ GenAdd \/ GenRemove \/ GenIndex \/ GenSize \/ GenQuery \/ GenArrange \/ GenWhole
GenSpec == Init /\ [][GenNext]_vars

------------------------------------------------------------------------------
(* The laws of an ideal sequence, stated on the step records independently of the definitions above. *)
L == last
Stepped == RECORD /\ last.op # "idle"
Bag(q) == [x \in Items \cup {-1, 1} |-> Count(q, x)]

TypeOK == /\ Len(s) <= MaxLen /\ \A i \in 1..Len(s) : s[i] \in Items

IndexedOps == {"RemoveItemAt", "RemoveItemAtRet", "GetItemAt", "ReplaceItemAt", "ReplaceItemAtDefault"}
EndOps     == {"RemoveHead", "RemoveHeadRet", "RemoveTail", "RemoveTailRet"}
FindOps    == {"RemoveFirst", "RemoveLast"}
SizeOps    == {"EnsureSize", "EnsureSizeSet", "EnsureSizeX", "EnsureSizeSetX", "EnsureCanAdd", "ShrinkToFit"}
\* "reports failure (and stays unchanged) exactly when the ideal operation is undefined (bad index, empty)"
FailureExact == Stepped =>
    /\ (L.st \notin {"ok", ""} => L.q = L.pre /\ L.o = L.src)
    /\ (L.op \in IndexedOps => (L.st = "badarg" <=> L.a >= Len(L.pre)) /\ L.st \in {"ok", "badarg"})
    /\ (L.op \in EndOps => (L.st = "notfound" <=> L.pre = <<>>) /\ L.st \in {"ok", "notfound"})
    /\ (L.op \in FindOps => (L.st = "notfound" <=> L.v \notin ItemsOf(L.pre)) /\ L.st \in {"ok", "notfound"})
    /\ (L.op \in {"InsertItemsAt", "InsertItemsAtArr", "InsertItemsAtSelf"} => (L.st = "ok" \/ L.a > Len(L.pre)))
    /\ (L.op \in SizeOps => (L.st = "err" <=> L.a >= 90) /\ (L.st = "okerr" <=> L.op = "EnsureSizeX" /\ L.a < 90 /\ L.b >= 90) /\ L.st \in {"ok", "err", "okerr"})
    /\ (L.op \notin IndexedOps \cup EndOps \cup FindOps \cup SizeOps \cup {"InsertItemsAt", "InsertItemsAtArr", "InsertItemsAtSelf"} => L.st \in {"ok", ""})

QueryOps == {"GetItemAt", "GetItemPtr", "GetWithDefault", "GetWithDefaultV", "HeadWithDefault", "TailWithDefault", "IndexOf", "LastIndexOf", "Contains",
             "StartsWith", "EndsWith", "StartsWithQ", "EndsWithQ", "Cmp", "CmpSelf", "Iter"}
CapacityOps == {"EnsureSize", "EnsureSizeX", "EnsureCanAdd", "ShrinkToFit", "Normalize", "CopyCtor", "AssignSelf", "CopyFromSelf", "MoveCtor"}
QueriesPure == Stepped /\ L.op \in QueryOps \cup CapacityOps => L.q = L.pre

\* what a step adds to / takes from the multiset of items
OneAdds  == {"AddTail", "AddHead", "AddTailGetV", "AddHeadGetV", "InsertItemAt", "InsertSorted"}
DefAdds  == {"AddTailDefault", "AddHeadDefault", "AddTailGet", "AddHeadGet", "InsertItemAtDefault"}
Permutes == {"Swap", "Reverse", "Sort"}
BagLaw == Stepped =>
    /\ (L.op \in OneAdds => Bag(L.q) = [Bag(L.pre) EXCEPT ![L.v] = @ + 1])
    /\ (L.op \in DefAdds => Bag(L.q) = [Bag(L.pre) EXCEPT ![Default] = @ + 1])
    /\ (L.op \in Permutes => Bag(L.q) = Bag(L.pre))
    /\ (L.op \in {"RemoveHeadRet", "RemoveTailRet", "RemoveItemAtRet"} /\ L.st = "ok" => Bag(L.pre) = [Bag(L.q) EXCEPT ![L.lo] = @ + 1])
    /\ (L.op \in {"RemoveFirst", "RemoveLast"} /\ L.st = "ok" => Bag(L.pre) = [Bag(L.q) EXCEPT ![L.v] = @ + 1])
    /\ (L.op = "RemoveAll" => Bag(L.q) = [Bag(L.pre) EXCEPT ![L.v] = 0] /\ L.lo = Count(L.pre, L.v))
    /\ (L.op = "RemoveDup" => ItemsOf(L.q) = ItemsOf(L.pre) /\ \A x \in ItemsOf(L.q) : Count(L.q, x) = 1)
    /\ (L.op \in {"SwapContents", "SwapContentsRev"} => L.q = L.src /\ L.o = L.pre)
    /\ (L.op \in {"MoveAssign", "Plunder"} => L.q = L.src /\ (L.op = "Plunder" => L.o = <<>>))
    /\ (L.op = "MoveAway" => L.o = L.pre)
    /\ (L.op \in {"CopyFrom", "Assign"} => L.q = L.src /\ L.o = L.src)

LenLaw == Stepped =>
    /\ (L.op \in OneAdds \cup DefAdds \cup {"AddTailOwn", "AddHeadOwn", "InsertItemAtOwn"} => Len(L.q) = Len(L.pre) + 1)
    /\ (L.op \in {"AddTailMulti", "AddHeadMulti", "InsertItemsAt"} /\ L.st = "ok" =>
           Len(L.q) = Len(L.pre) + (IF L.op = "InsertItemsAt" THEN Min(L.c, Max(0, Len(L.src) - L.b)) ELSE Min(L.b, Max(0, Len(L.src) - L.a))))
    /\ (L.op \in {"AddTailMultiArr", "AddHeadMultiArr", "InsertItemsAtArr"} /\ L.st = "ok" => Len(L.q) = Len(L.pre) + Len(L.src))
    /\ (L.op \in {"AddTailMultiSelf", "AddHeadMultiSelf"} => Len(L.q) = Len(L.pre) + Min(L.b, Max(0, Len(L.pre) - L.a)))
    /\ (L.op \in IndexedOps \cup EndOps \cup FindOps /\ L.st = "ok" /\ L.op \notin {"GetItemAt", "ReplaceItemAt", "ReplaceItemAtDefault"} => Len(L.q) = Len(L.pre) - 1)
    /\ (L.op \in {"RemoveHeadMulti", "RemoveTailMulti"} => L.lo = Min(L.a, Len(L.pre)) /\ Len(L.q) = Len(L.pre) - L.lo)
    /\ (L.op \in {"Clear", "FastClear", "Release", "MoveAway"} => L.q = <<>>)
    /\ (L.op \in {"EnsureSizeSet", "EnsureSizeSetX"} /\ L.st = "ok" => Len(L.q) = L.a)

\* the items a step does not touch keep their places relative to each other
OrderLaw == Stepped =>
    /\ (L.op \in {"AddTail", "AddTailDefault", "AddTailGet", "AddTailGetV"} => Take(L.q, Len(L.pre)) = L.pre /\ L.q[Len(L.q)] = L.v)
    /\ (L.op \in {"AddHead", "AddHeadDefault", "AddHeadGet", "AddHeadGetV"} => Drop(L.q, 1) = L.pre /\ L.q[1] = L.v)
    /\ (L.op \in {"InsertItemAt", "InsertItemAtDefault"} /\ L.st = "ok" => LET k == Min(L.a, Len(L.pre)) IN RemoveAt(L.q, k) = L.pre /\ L.q[k + 1] = L.v)
    /\ (L.op \in {"AddTailMulti", "AddTailMultiArr", "AddTailMultiSelf"} => Take(L.q, Len(L.pre)) = L.pre)
    /\ (L.op \in {"AddHeadMulti", "AddHeadMultiArr", "AddHeadMultiSelf"} => Drop(L.q, Len(L.q) - Len(L.pre)) = L.pre)
    /\ (L.op \in {"InsertItemsAt", "InsertItemsAtArr", "InsertItemsAtSelf"} /\ L.st = "ok" =>
           LET k == Min(L.a, Len(L.pre)) IN Take(L.q, k) = Take(L.pre, k) /\ Drop(L.q, Len(L.q) - (Len(L.pre) - k)) = Drop(L.pre, k))
    /\ (L.op \in {"RemoveHead", "RemoveHeadRet"} /\ L.st = "ok" => L.q = Drop(L.pre, 1))
    /\ (L.op \in {"RemoveTail", "RemoveTailRet"} /\ L.st = "ok" => L.q = Take(L.pre, Len(L.pre) - 1))
    /\ (L.op \in {"RemoveItemAt", "RemoveItemAtRet"} /\ L.st = "ok" => \A i \in 1..Len(L.q) : L.q[i] = L.pre[IF i <= L.a THEN i ELSE i + 1])
    /\ (L.op = "RemoveHeadRet" /\ L.st = "ok" => L.lo = L.pre[1])
    /\ (L.op = "RemoveTailRet" /\ L.st = "ok" => L.lo = L.pre[Len(L.pre)])
    /\ (L.op \in {"RemoveItemAtRet", "GetItemAt"} /\ L.st = "ok" => L.lo = L.pre[L.a + 1])
    /\ (L.op \in {"ReplaceItemAt", "ReplaceItemAtDefault"} /\ L.st = "ok" => \A i \in 1..Len(L.pre) : L.q[i] = IF i = L.a + 1 THEN L.v ELSE L.pre[i])
    /\ (L.op = "Swap" => \A i \in 1..Len(L.pre) : L.q[i] = L.pre[IF i = L.a + 1 THEN L.b + 1 ELSE IF i = L.b + 1 THEN L.a + 1 ELSE i])
    /\ (L.op = "InsertSorted" => IsSorted(L.q) /\ \A r \in L.lo..L.hi : RemoveAt(L.q, r) = L.pre /\ L.q[r + 1] = L.v)

SortLaw == Stepped /\ L.op = "Sort" =>
    LET hi == Min(L.b, Len(L.pre)) IN
    /\ Len(L.q) = Len(L.pre)
    /\ \A i \in 1..Len(L.q) : (i <= L.a \/ i > hi) => L.q[i] = L.pre[i]
    /\ \A i \in (L.a + 1)..(hi - 1) : L.q[i] <= L.q[i + 1]
ReverseLaw == Stepped /\ L.op = "Reverse" =>
    LET hi == Min(L.b, Len(L.pre)) IN
    /\ Len(L.q) = Len(L.pre)
    /\ \A i \in 1..Len(L.q) : L.q[i] = IF i > L.a /\ i <= hi THEN L.pre[L.a + 1 + hi - i] ELSE L.pre[i]
\* what EnsureSize(n, true) and the default-item calls add is the default item; what they keep is a prefix
DefaultLaw == Stepped =>
    /\ (L.op \in {"EnsureSizeSet", "EnsureSizeSetX"} => \A i \in 1..Len(L.q) : L.q[i] = IF i <= Len(L.pre) THEN L.pre[i] ELSE Default)
    /\ (L.op \in DefAdds \cup {"ReplaceItemAtDefault"} => L.v = Default)
    /\ (L.op \in {"GetWithDefault", "RemoveItemAtDef"} /\ L.a >= Len(L.pre) => L.lo = Default)
SearchLaw == Stepped =>
    /\ (L.op = "IndexOf" => LET hi == Min(L.b, Len(L.pre)) IN
           IF L.lo = -1 THEN \A i \in L.a..(hi - 1) : L.pre[i + 1] # L.v
           ELSE L.lo >= L.a /\ L.lo < hi /\ L.pre[L.lo + 1] = L.v /\ \A i \in L.a..(L.lo - 1) : L.pre[i + 1] # L.v)
    /\ (L.op = "LastIndexOf" => LET top == Min(L.a, Len(L.pre) - 1) IN
           IF L.lo = -1 THEN \A i \in L.b..top : L.pre[i + 1] # L.v
           ELSE L.lo <= top /\ L.lo >= L.b /\ L.pre[L.lo + 1] = L.v /\ \A i \in (L.lo + 1)..top : L.pre[i + 1] # L.v)
CmpLaw == Stepped /\ L.op = "Cmp" =>
    /\ (L.lo = 0 <=> L.pre = L.src)
    /\ (Len(L.pre) < Len(L.src) /\ Take(L.src, Len(L.pre)) = L.pre => L.lo = -1)
    /\ (Len(L.src) < Len(L.pre) /\ Take(L.pre, Len(L.src)) = L.src => L.lo = 1)
=============================================================================
