SPECIFICATION TraceSpec
CONSTANTS
  Vals = {1, 2, 3, 4, 5, 6, 7, 8, 9}
  MaxLen = 1000000
  Srcs <- Srcs2
  RECORD = TRUE
  Wrong = "none"
CONSTRAINT Track
POSTCONDITION Report
