SPECIFICATION GenSpec
CONSTANTS
  Vals = {1, 2, 3}
  MaxLen = 4
  Srcs <- Srcs3
  RECORD = TRUE
  Wrong = "none"
INVARIANTS TypeOK FailureExact QueriesPure BagLaw LenLaw OrderLaw SortLaw ReverseLaw DefaultLaw SearchLaw CmpLaw
