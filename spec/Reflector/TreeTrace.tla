------------------------------- MODULE TreeTrace -------------------------------
(***************************************************************************)
(* Trace validation for C04 (code -> specification): histories recorded by   *)
(* harness/refl.cpp from the real server, one line per command with the      *)
(* update Messages every client received during it, are replayed against     *)
(* TreeAbs.  The validation is linear (one state per line): the line names   *)
(* the command and its arguments; TLC                                        *)
(*   - moves the tree by the change the harness observed on the server and   *)
(*     compares it with the DOCUMENTED effect of the command (SetTree /      *)
(*     RemoveTree / ...) whenever that effect is determined by the command   *)
(*     alone (ln.calc): asdoc records a disagreement;                        *)
(*   - keeps the subscription parameters as the client set them;             *)
(*   - applies the recorded update Messages to the mirrors with the client   *)
(*     protocol of TreeAbs (removals first, then sets; pruning after         *)
(*     removing a subscription or after an explicit PR_COMMAND_GETDATA);     *)
(* and checks Converged in every state.  Histories are concatenated with     *)
(* {"e": "Reset"} lines.                                                     *)
(***************************************************************************)
EXTENDS TreeAbs, Json, IOUtils

VARIABLES l,       \* next line
          asdoc    \* sticky: FALSE once an observed change of the tree differs from the documented effect of its command

TraceLog == ndJsonDeserialize(IOEnv.TRACE)
N == Len(TraceLog)
tvars == <<tree, conn, subs, mirror, unclaimed, l, asdoc>>

Names == UNION {{s : s \in DOMAIN TraceLog[i].u} : i \in {j \in 1..N : TraceLog[j].e = "cmd"}}   \* every session name that ever appears

Get(r, k, d) == IF k \in DOMAIN r THEN r[k] ELSE d
Range(f) == {f[i] : i \in DOMAIN f}

\* the documented effect of an abstract command on the tree
RECURSIVE Effs(_, _, _)
Eff(t, s, c) == CASE c.op = "set"    -> SetTree(t, s, c.q, c.v, c.nc, c.no)
                  [] c.op = "remove" -> RemoveTree(t, s, Range(c.keys))
                  [] c.op = "seq"    -> Effs(t, s, c.ops)
                  [] c.op = "connect" -> AddSession(t, s)
                  [] c.op = "disconnect" -> DropSession(t, s)
                  [] OTHER -> t
Effs(t, s, ops) == IF ops = <<>> THEN t ELSE Effs(Eff(t, s, Head(ops)), s, Tail(ops))

\* the effect of a command on the sender's subscription parameters (S), and whether the client prunes its mirror after it; the parts of a
\* PR_COMMAND_BATCH ("seq") count in order
RECURSIVE SubsEffs(_, _)
SubsEff(S, c) == CASE c.op = "subscribe"   -> [sp \in {c.subs[i].sp : i \in DOMAIN c.subs} |->
                                                  LET i == CHOOSE j \in DOMAIN c.subs : c.subs[j].sp = sp IN [cl |-> c.subs[i].cl, f |-> c.subs[i].f]] @@ S
                   [] c.op = "unsubscribe" -> Restrict(S, DOMAIN S \ {c.sp})
                   [] c.op = "seq"         -> SubsEffs(S, c.ops)
                   [] OTHER -> S
SubsEffs(S, ops) == IF ops = <<>> THEN S ELSE SubsEffs(SubsEff(S, Head(ops)), Tail(ops))
Prunes(c) == c.op \in {"unsubscribe", "getdata"} \/ (c.op = "seq" /\ \E i \in DOMAIN c.ops : c.ops[i].op \in {"unsubscribe", "getdata"})

\* the change the harness observed: d = [set |-> <<<<path, payload>>, ...>>, del |-> <<path, ...>>]
ApplyDelta(t, d) == LET dels == Range(d.del)
                        setp == {d.set[i][1] : i \in DOMAIN d.set}
                        Val(p) == d.set[CHOOSE i \in DOMAIN d.set : d.set[i][1] = p][2]
                        D == (DOMAIN t \ dels) \cup setp
                    IN [p \in D |-> IF p \in setp THEN Val(p) ELSE t[p]]

Updates(ln, s) == LET us == Get(ln.u, s, <<>>) IN us

TraceInit == /\ tree = Empty /\ conn = {} /\ subs = [s \in Names |-> Empty] /\ mirror = [s \in Names |-> Empty]
             /\ unclaimed = [s \in Names |-> {}] /\ l = 1 /\ asdoc = TRUE /\ TLCSet(1, 0)

TReset == /\ l <= N /\ TraceLog[l].e = "Reset"
          /\ tree' = Empty /\ conn' = {} /\ subs' = [s \in Names |-> Empty] /\ mirror' = [s \in Names |-> Empty]
          /\ unclaimed' = [s \in Names |-> {}] /\ l' = l + 1 /\ UNCHANGED asdoc

TCmd == /\ l <= N /\ TraceLog[l].e = "cmd"
        /\ LET ln == TraceLog[l]
               c == ln.t
               s == c.s
               t2 == ApplyDelta(tree, ln.d)
               cn2 == IF c.op = "connect" THEN conn \cup {s} ELSE IF c.op = "disconnect" THEN conn \ {s} ELSE conn
               S2 == IF c.op \in {"connect", "disconnect"} THEN [subs EXCEPT ![s] = Empty] ELSE [subs EXCEPT ![s] = SubsEff(@, c)]
               m2 == [x \in Names |-> IF x \notin cn2 \/ (x = s /\ c.op = "connect") THEN Empty
                                       ELSE LET m == ApplyAll(x, mirror[x], Updates(ln, x))
                                            IN IF x = s /\ Prunes(c) THEN Prune(m, S2[x]) ELSE m]
           IN /\ tree' = t2 /\ conn' = cn2 /\ subs' = S2 /\ mirror' = m2
              /\ unclaimed' = [x \in Names |-> Range(Get(ln.unc, x, <<>>))]
              /\ asdoc' = (asdoc /\ (ln.calc => t2 = Eff(tree, s, c)))
        /\ l' = l + 1

TraceNext == TReset \/ TCmd
TraceSpec == TraceInit /\ [][TraceNext]_tvars

\* acceptance: no invariant fails and the progress register (Track, printed by the POSTCONDITION Report) reaches N + 1, the state after the last
\* line.  (Listing NotAccepted as an invariant instead makes TLC print the whole accepted behaviour - useful for a short trace only.)
NotAccepted == l <= N
\* the tree changed as the documentation of the commands says (a failure is DRIFT of the algorithm-level reading, not of C04)
TreeAsDocumented == asdoc

Track == TLCSet(1, IF TLCGet(1) > l THEN TLCGet(1) ELSE l)
TrackInit == TLCSet(1, 0)
Report == PrintT(<<"maxline", TLCGet(1), "of", N>>)
=============================================================================
