------------------------------- MODULE SubsImpl -------------------------------
(***************************************************************************)
(* reflector/StorageReflectSession.cpp + DataNode.cpp as coded: how the      *)
(* server decides which update Messages a subscriber receives.               *)
(*                                                                          *)
(*  - per-node subscriber reference counts (refs) maintained INCREMENTALLY:  *)
(*    NodeCreated = number of the session's matcher entries whose path       *)
(*    matches, DoSubscribeRefCallback +1 / -1 over the existing nodes a new / *)
(*    removed entry matches, everything of a departing session dropped;      *)
(*  - NotifySubscribersThatNodeChanged -> NodeChanged with the               *)
(*    matched-before / matches-now logic (only when the session has at least *)
(*    one filter), ChangeQueryFilterCallback on a re-subscribe of an         *)
(*    existing entry (with the repair of F3);                                *)
(*  - the pending update Message of every subscriber as a sequence of set /  *)
(*    remove entries: flush-before-remove-after-set of the same path, flush  *)
(*    when the number of field names reaches the max-items parameter;        *)
(*  - the initial PR_COMMAND_GETDATA-like result of a non-quiet subscribe,   *)
(*    sent AFTER the updates a filter change of the same Message has queued  *)
(*    (the repair of F34);                                                   *)
(*  - session arrival / departure (Cleanup: own subtree removed with         *)
(*    notifications, deepest nodes first).                                   *)
(* One command = one action: it folds over its elementary node changes and   *)
(* yields, per session, the SEQUENCE of update Messages it receives; the     *)
(* client (TreeAbs) applies them at once.  Every state is quiescent.         *)
(*                                                                          *)
(* Named deviations of this model from the code: (1) children are visited in *)
(* a canonical order, the code uses creation order - the batching of updates *)
(* is therefore compared with the code only through its effect on the        *)
(* mirrors and through the NUMBER of Messages of single-operation commands;  *)
(* (2) results about a session's own nodes (sent when _indexingPresent) are  *)
(* left out of the initial result: the client ignores them; (3) host node    *)
(* and root node are not modelled (all sessions share one host).             *)
(* Deviations (constant) names defects / wrong variants, modelled as they    *)
(* are (were): "F27" two spellings of one path allowed at the same time      *)
(* (open known finding); "F34" the initial result of a SETPARAMETERS leaves  *)
(* before its pending updates (before the repair); "F3" the filter-change    *)
(* code before its repair; "norecurse" a removal that leaves the children    *)
(* behind; "noflush" the flush-before-remove rule dropped; "nofixup" no      *)
(* removal when a payload change moves a node out of the filters.            *)
(***************************************************************************)
EXTENDS TreeAbs, Json

CONSTANTS Sessions, Writers, Subscribers, Churn,   \* Churn: sessions that may disconnect / connect
          DeepWriters, DeepPaths, FlatPaths,   \* the relative paths a writer sets: DeepPaths for the writers in DeepWriters, FlatPaths for the others
          Payloads, Spellings, RemKeys, Filters, MaxSubs, MaxItemsMenu,
          Quiet,         \* TRUE: quiet variants of set / remove / subscribe are generated
          MultiOps,      \* TRUE: two-operation handlers are generated
          MultiSub,      \* TRUE: PR_COMMAND_SETPARAMETERS Messages with two SUBSCRIBE: fields are generated
          Deviations, RECORD

VARIABLES entries,    \* [session -> function: pattern (normalised path of a subscription) -> filter]   _subscriptions
          refs,       \* function: present path -> [session -> count]                                    DataNode::_subscribers
          maxItems,   \* [session -> Nat]                                                                 _maxSubscriptionMessageItems
          bad,        \* ghost, sticky: names of the step-level clauses that failed ({} = none)
          last        \* the step that led here (RECORD = TRUE only)

absvars == <<tree, conn, subs, mirror, unclaimed>>
vars == <<tree, conn, subs, mirror, unclaimed, entries, refs, maxItems, bad, last>>
view == <<tree, conn, subs, mirror, unclaimed, entries, refs, maxItems, bad>>

PathTable == ("a" :> <<"a">>) @@ ("b" :> <<"b">>) @@ ("a/a" :> <<"a", "a">>) @@ ("a/b" :> <<"a", "b">>) @@ ("b/a" :> <<"b", "a">>) @@ ("b/b" :> <<"b", "b">>)
              @@ ("a/a/a" :> <<"a", "a", "a">>) @@ ("a/b/a" :> <<"a", "b", "a">>)
WPaths == [w \in Writers |-> {PathTable[x] : x \in IF w \in DeepWriters THEN DeepPaths ELSE FlatPaths}]   \* (a configuration file cannot hold tuples)
W == <<"*">>
Menu == ("a" :> << <<"a">> >>) @@ ("b" :> << <<"b">> >>) @@ ("*" :> << W >>) @@ ("a/*" :> << <<"a">>, W >>) @@ ("*/b" :> << W, <<"b">> >>)
        @@ ("/*/*/a" :> << <<"a">> >>) @@ ("a,b" :> << <<"a", "b">> >>) @@ ("*/*" :> << W, W >>) @@ ("a/b" :> << <<"a">>, <<"b">> >>)
        @@ ("/*/*" :> << >>) @@ ("/*/*/*" :> << W >>)
ASSUME Spellings \subseteq DOMAIN Menu /\ RemKeys \subseteq DOMAIN Menu
DefaultMaxItems == 50

RECURSIVE SeqOf(_)
SeqOf(S) == IF S = {} THEN <<>> ELSE LET x == CHOOSE y \in S : TRUE IN <<x>> \o SeqOf(S \ {x})

-----------------------------------------------------------------------------
(* The pending update Message (NodeChangedAux, PushSubscriptionMessages) *)

NoMsg == [out |-> <<>>, cur |-> <<>>]         \* out: Messages already pushed during this command, cur: _nextSubscriptionMessage
HasSet(m, p) == \E i \in DOMAIN m : m[i].k = "set" /\ m[i].p = p
NumNames(m)  == Cardinality({m[i].p : i \in {j \in DOMAIN m : m[j].k = "set"}}) + (IF \E i \in DOMAIN m : m[i].k = "rem" THEN 1 ELSE 0)
Push(ps) == IF ps.cur = <<>> THEN ps ELSE [out |-> Append(ps.out, ps.cur), cur |-> <<>>]
Aux(ps, mx, k, p, v) ==
    LET a == IF k = "rem" /\ HasSet(ps.cur, p) /\ "noflush" \notin Deviations THEN Push(ps) ELSE ps   \* a remove cannot follow a set of the same node in one Message
        b == [a EXCEPT !.cur = Append(@, [k |-> k, p |-> p, v |-> v])]
    IN IF NumNames(b.cur) >= mx THEN Push(b) ELSE b

\* NodePathMatcher: GetMatchCount (paths only), MatchesNode (data = Absent stands for a NULL Message: filters pass)
PathCount(E, p)   == Cardinality({cl \in DOMAIN E : PathMatches(cl, p)})
EMatches(E, p, v) == \E cl \in DOMAIN E : PathMatches(cl, p) /\ (v = Absent \/ FilterOK(E[cl], v))
HasFilters(E)     == \E cl \in DOMAIN E : E[cl] # 0

\* StorageReflectSession::NodeChanged of a subscriber with matcher entries E
NodeChanged(E, ps, mx, p, old, new, removed) ==
    IF ~HasFilters(E) THEN Aux(ps, mx, IF removed THEN "rem" ELSE "set", p, new)
    ELSE LET mb == EMatches(E, p, old)
             mn == EMatches(E, p, new)
         IN IF removed THEN (IF mb THEN Aux(ps, mx, "rem", p, new) ELSE ps)
            ELSE IF old # Absent
                 THEN (IF ~mn THEN (IF mb /\ "nofixup" \notin Deviations THEN Aux(ps, mx, "rem", p, new) ELSE ps) ELSE Aux(ps, mx, "set", p, new))
                 ELSE (IF ~mn THEN ps ELSE Aux(ps, mx, "set", p, new))

\* server state threaded through the elementary changes of one command: [tree, refs, pend]
Notify(z, actor, p, old, new, removed) ==
    [z EXCEPT !.pend = [s \in DOMAIN @ |-> IF s # actor /\ z.refs[p][s] > 0
                                            THEN NodeChanged(entries[s], @[s], maxItems[s], p, old, new, removed) ELSE @[s]]]

Create(z, actor, p, v, quiet, cn) ==       \* PutChild -> SetParent -> NodeCreated by every session (cn), then the data notification
    LET z2 == [z EXCEPT !.tree = (p :> v) @@ @,
                        !.refs = (p :> [s \in Sessions |-> IF s \in cn THEN PathCount(entries[s], p) ELSE 0]) @@ @]
    IN IF quiet THEN z2 ELSE Notify(z2, actor, p, Absent, v, FALSE)

Modify(z, actor, p, v, quiet) ==           \* DataNode::SetData
    LET z2 == [z EXCEPT !.tree[p] = v]
    IN IF quiet THEN z2 ELSE Notify(z2, actor, p, z.tree[p], v, FALSE)

RECURSIVE RemoveSub(_, _, _, _), RemoveAll(_, _, _, _)
RemoveSub(z, actor, p, quiet) ==           \* DataNode::RemoveChild(recurse): children first, then the notification, then the node
    LET kids == {c \in DOMAIN z.tree : Len(c) = Len(p) + 1 /\ IsPrefix(p, c)}
        z1 == IF "norecurse" \in Deviations THEN z ELSE RemoveAll(z, actor, SeqOf(kids), quiet)
        z2 == IF quiet THEN z1 ELSE Notify(z1, actor, p, z1.tree[p], z1.tree[p], TRUE)
    IN [z2 EXCEPT !.tree = Restrict(@, DOMAIN @ \ {p}), !.refs = Restrict(@, DOMAIN @ \ {p})]
RemoveAll(z, actor, ps, quiet) == IF ps = <<>> THEN z ELSE RemoveAll(RemoveSub(z, actor, Head(ps), quiet), actor, Tail(ps), quiet)

RECURSIVE SetFrom(_, _, _, _, _, _)
SetFrom(z, w, q, v, quiet, i) ==           \* StorageReflectSession::SetDataNode
    IF i > Len(q) THEN z
    ELSE LET p == <<w>> \o SubSeq(q, 1, i) IN
         IF p \notin DOMAIN z.tree THEN SetFrom(Create(z, w, p, IF i = Len(q) THEN v ELSE 0, quiet, conn), w, q, v, quiet, i + 1)
         ELSE IF i = Len(q) THEN Modify(z, w, p, v, quiet)
         ELSE SetFrom(z, w, q, v, quiet, i + 1)

Z0 == [tree |-> tree, refs |-> refs, pend |-> [s \in Sessions |-> NoMsg]]
Out(z) == [s \in Sessions |-> Push(z.pend[s]).out]

\* what the client makes of a Message of the server
RemsOf(m) == LET I == SeqOf({i \in DOMAIN m : m[i].k = "rem"}) IN [j \in DOMAIN I |-> m[I[j]].p]
RECURSIVE SetsOf(_)
SetsOf(m) == IF m = <<>> THEN <<>> ELSE (IF Head(m).k = "set" THEN << <<Head(m).p, Head(m).v>> >> ELSE <<>>) \o SetsOf(Tail(m))
Upd(m) == [rem |-> RemsOf(m), set |-> SetsOf(m)]
Upds(ms) == [k \in DOMAIN ms |-> Upd(ms[k])]

SetThenRemove(m) == \E i, j \in DOMAIN m : i < j /\ m[i].k = "set" /\ m[j].k = "rem" /\ m[i].p = m[j].p

-----------------------------------------------------------------------------
(* Applying a command's result *)

Pairs(m) == {<<p, m[p]>> : p \in DOMAIN m}

\* a canonical text for a state (ToString of a function or set is not canonical): vectors over fixed enumerations.  refs, entries and
\* bad are left out: they are determined by the rest (RefsExact, EntriesExact) in the instances behaviours are generated from.
PossiblePaths == {<<s>> : s \in Sessions} \cup UNION {UNION {Prefixes(w, q) : q \in WPaths[w]} : w \in Writers}
PathSeq == SeqOf(PossiblePaths)
SessSeq == SeqOf(Sessions)
SpellSeq == SeqOf(Spellings)
Vec(f) == [i \in DOMAIN PathSeq |-> IF PathSeq[i] \in DOMAIN f THEN f[PathSeq[i]] ELSE Absent]
Key(t, cn, S, m, un, mx) ==
    ToString(<<Vec(t), [i \in DOMAIN SessSeq |-> LET s == SessSeq[i] IN
                          <<IF s \in cn THEN 1 ELSE 0, mx[s],
                            [j \in DOMAIN SpellSeq |-> IF SpellSeq[j] \in DOMAIN S[s] THEN S[s][SpellSeq[j]].f ELSE Absent],
                            IF s \in Subscribers THEN Vec(m[s]) ELSE <<>>,
                            IF s \in Subscribers THEN [k \in DOMAIN PathSeq |-> IF PathSeq[k] \in un[s] THEN 1 ELSE 0] ELSE <<>> >>]>>)
Finish(cmd, z, E2, S2, cn, mx2, taint, pruneFor, abstree) ==
    LET out == Out(z)
        ups == [s \in Sessions |-> Upds(out[s])]
        m2  == [s \in Sessions |-> IF s \notin cn THEN Empty
                                    ELSE LET m == ApplyAll(s, mirror[s], ups[s]) IN IF s = pruneFor THEN Prune(m, S2[s]) ELSE m]
        un2 == [s \in Sessions |-> IF s \notin cn \/ s \notin Subscribers THEN {} ELSE ((unclaimed[s] \cup taint[s]) \ Mentioned(ups[s])) \ (IF s = pruneFor THEN {p \in unclaimed[s] : ~\E sp \in DOMAIN S2[s] : PathMatches(S2[s][sp].cl, p)} ELSE {})]
        nb  == (IF \E s \in Sessions : \E k \in DOMAIN out[s] : SetThenRemove(out[s][k]) THEN {"SetThenRemove"} ELSE {})
               \cup (IF z.tree # abstree THEN {"TreeStep"} ELSE {})
    IN /\ tree' = z.tree /\ refs' = z.refs /\ conn' = cn /\ entries' = E2 /\ subs' = S2 /\ maxItems' = mx2
       /\ mirror' = m2 /\ unclaimed' = un2 /\ bad' = bad \cup nb
       /\ last' = IF RECORD THEN [cmd |-> cmd,
                                  exp |-> [s \in Subscribers |-> Pairs(m2[s])],        \* expected mirror of every subscriber after the command
                                  unc |-> [s \in Subscribers |-> un2[s]],              \* ... except on these paths
                                  con |-> cn,
                                  nmsg |-> [s \in Subscribers |-> Len(out[s])]]
                  ELSE last
       /\ (RECORD => PrintT("@@" \o ToJson([pre |-> Key(tree, conn, subs, mirror, unclaimed, maxItems), post |-> Key(z.tree, cn, S2, m2, un2, mx2), step |-> last'])))

NoTaint == [s \in Sessions |-> {}]
None == "-"

-----------------------------------------------------------------------------
(* Commands *)

HitSet(t, w, key) == {p \in DOMAIN t : Owner(p) = w /\ Len(p) >= 2 /\ PathMatches(Menu[key], p)}      \* RemoveDataCallback never takes session nodes
\* an elementary operation o = [op |-> "set", q, v] or [op |-> "remove", key] executed by session w on the server state z
ElemOp(z, w, o, quiet) == IF o.op = "set" THEN SetFrom(z, w, o.q, o.v, quiet, 1)
                          ELSE RemoveAll(z, w, SeqOf(HitSet(z.tree, w, o.key)), quiet)
AbsOp(t, w, o) == IF o.op = "set" THEN SetTree(t, w, o.q, o.v, FALSE, FALSE) ELSE RemoveTree(t, w, {Menu[o.key]})
SetOps == {[op |-> "set", q |-> q, v |-> v] : q \in UNION {WPaths[x] : x \in Writers}, v \in Payloads}
RemOps == {[op |-> "remove", key |-> k] : k \in RemKeys}
OkFor(w, o) == IF o.op = "remove" THEN TRUE ELSE o.q \in WPaths[w]

Set(w, q, v, quiet) ==                       \* PR_COMMAND_SETDATA (flags: quiet)
    /\ w \in conn /\ w \in Writers /\ q \in WPaths[w] /\ v \in Payloads /\ (quiet => Quiet)
    /\ LET z == ElemOp(Z0, w, [op |-> "set", q |-> q, v |-> v], quiet)
           touched == {p \in Prefixes(w, q) : p \notin DOMAIN tree \/ p = <<w>> \o q}
       IN Finish([op |-> "set", s |-> w, q |-> q, v |-> v, quiet |-> quiet], z, entries, subs, conn, maxItems,
                 IF quiet THEN [s \in Sessions |-> touched] ELSE NoTaint, None, SetTree(tree, w, q, v, FALSE, FALSE))

Remove(w, key, quiet) ==                     \* PR_COMMAND_REMOVEDATA (PR_NAME_REMOVE_QUIETLY)
    /\ w \in conn /\ w \in Writers /\ key \in RemKeys /\ (quiet => Quiet)
    /\ LET z == ElemOp(Z0, w, [op |-> "remove", key |-> key], quiet)
       IN Finish([op |-> "remove", s |-> w, key |-> key, quiet |-> quiet], z, entries, subs, conn, maxItems,
                 IF quiet THEN [s \in Sessions |-> DOMAIN tree \ DOMAIN z.tree] ELSE NoTaint, None, RemoveTree(tree, w, {Menu[key]}))

\* two operations inside ONE Message handler (a server-side subclass calling SetDataNode / RemoveDataNodes: the updates of both
\* accumulate in the same pending Messages - the stock commands flush after every Message, also inside a PR_COMMAND_BATCH)
Multi(w, o1, o2) ==
    /\ MultiOps /\ w \in conn /\ w \in Writers /\ OkFor(w, o1) /\ OkFor(w, o2) /\ o1.op # o2.op
    /\ Finish([op |-> "multi", s |-> w, ops |-> <<o1, o2>>], ElemOp(ElemOp(Z0, w, o1, FALSE), w, o2, FALSE), entries, subs, conn, maxItems,
              NoTaint, None, AbsOp(AbsOp(tree, w, o1), w, o2))

\* ChangeQueryFilterCallback over the existing nodes the entry's path matches (own nodes included: the traversal does not skip them)
RECURSIVE ChangeFilter(_, _, _, _, _, _, _)
ChangeFilter(ps, mx, nodes, oldf, newf, E2, fixed) ==
    IF nodes = <<>> THEN ps
    ELSE LET p == Head(nodes)
             om == FilterOK(oldf, tree[p])
             nm == FilterOK(newf, tree[p])
             ps2 == IF om = nm THEN ps
                    ELSE IF om /\ fixed /\ EMatches(E2, p, tree[p]) THEN ps        \* repair of F3: still matched by another subscription
                    ELSE Aux(ps, mx, IF om THEN "rem" ELSE "set", p, tree[p])
         IN ChangeFilter(ps2, mx, Tail(nodes), oldf, newf, E2, fixed)

\* one SUBSCRIBE: field of a PR_COMMAND_SETPARAMETERS Message; st = [E, R, ps] (matcher entries of s, refs, pending Message of s)
SubField(s, st, sp, f) ==
    LET cl == Menu[sp]
        E == st.E
        exists == cl \in DOMAIN E
        E2 == (cl :> f) @@ E
        oldf == IF exists THEN E[cl] ELSE 0
        nodes == SeqOf({p \in DOMAIN tree : PathMatches(cl, p)})
        fixed == "F3" \notin Deviations
    IN IF exists
       THEN [E |-> E2, R |-> st.R,
             ps |-> IF f # 0 \/ oldf # 0 THEN ChangeFilter(st.ps, maxItems[s], nodes, oldf, f, IF fixed THEN E2 ELSE E, fixed) ELSE st.ps]
       ELSE [E |-> E2, ps |-> st.ps,
             R |-> [p \in DOMAIN st.R |-> IF PathMatches(cl, p) THEN [st.R[p] EXCEPT ![s] = @ + 1] ELSE st.R[p]]]

\* DoGetData for the keys / filters of the SUBSCRIBE: fields: every node of another session selected by one of them, in Messages of at most mx names
RECURSIVE Chunks(_, _, _)
Chunks(nodes, mx, cur) ==
    IF nodes = <<>> THEN (IF cur = <<>> THEN <<>> ELSE <<cur>>)
    ELSE LET c2 == Append(cur, [k |-> "set", p |-> Head(nodes), v |-> tree[Head(nodes)]])
         IN IF Len(c2) >= mx THEN <<c2>> \o Chunks(Tail(nodes), mx, <<>>) ELSE Chunks(Tail(nodes), mx, c2)

SetParams(s, fields, quiet) ==      \* fields: sequence of <<spelling, filter>>, one per SUBSCRIBE: field
    /\ s \in conn /\ s \in Subscribers /\ (quiet => Quiet)
    /\ \A i \in DOMAIN fields : fields[i][1] \in Spellings /\ fields[i][2] \in Filters
    /\ LET st1 == SubField(s, [E |-> entries[s], R |-> refs, ps |-> NoMsg], fields[1][1], fields[1][2])
           st  == IF Len(fields) = 1 THEN st1 ELSE SubField(s, st1, fields[2][1], fields[2][2])
           S2  == [sp \in {fields[i][1] : i \in DOMAIN fields} |->
                       LET i == CHOOSE j \in DOMAIN fields : fields[j][1] = sp /\ \A k \in DOMAIN fields : fields[k][1] = sp => k <= j
                       IN [cl |-> Menu[sp], f |-> fields[i][2]]] @@ subs[s]
           got == {p \in DOMAIN tree : Owner(p) # s /\ \E i \in DOMAIN fields : PathMatches(Menu[fields[i][1]], p) /\ FilterOK(fields[i][2], tree[p])}
           G   == IF quiet THEN <<>> ELSE Chunks(SeqOf(got), maxItems[s], <<>>)
           ps  == IF "F34" \in Deviations \/ quiet
                  THEN [out |-> st.ps.out \o G, cur |-> st.ps.cur]      \* before the repair of F34 the results left BEFORE the still pending update Message
                  ELSE [out |-> Push(st.ps).out \o G, cur |-> <<>>]     \* PushSubscriptionMessages(), then DoGetData()
           z   == [tree |-> tree, refs |-> st.R, pend |-> [x \in Sessions |-> IF x = s THEN ps ELSE NoMsg]]
           taint == IF quiet THEN [x \in Sessions |-> IF x = s THEN {p \in DOMAIN tree : \E i \in DOMAIN fields : PathMatches(Menu[fields[i][1]], p)} ELSE {}] ELSE NoTaint
       IN Finish([op |-> "subscribe", s |-> s, subs |-> [i \in DOMAIN fields |-> [sp |-> fields[i][1], f |-> fields[i][2]]], quiet |-> quiet],
                 z, [entries EXCEPT ![s] = st.E], [subs EXCEPT ![s] = S2], conn, maxItems, taint, None, tree)

Subscribe(s, sp, f, quiet) ==
    /\ ~(sp \notin DOMAIN subs[s] /\ Cardinality(DOMAIN subs[s]) >= MaxSubs)      \* (written without a disjunction: TLC would take it for a choice)
    /\ sp \in DOMAIN subs[s] => subs[s][sp].f # f                         \* a re-subscribe changes the filter
    /\ ~("F27" \notin Deviations /\ \E sp2 \in DOMAIN subs[s] \ {sp} : Menu[sp2] = Menu[sp])      \* one spelling per path
    /\ SetParams(s, << <<sp, f>> >>, quiet)

Subscribe2(s, sp1, f1, sp2, f2) ==           \* ONE Message with two SUBSCRIBE: fields: a filter change and a new subscription, in either order
    /\ MultiSub /\ Menu[sp1] # Menu[sp2]
    /\ (sp1 \in DOMAIN subs[s]) # (sp2 \in DOMAIN subs[s])
    /\ sp1 \in DOMAIN subs[s] => subs[s][sp1].f # f1
    /\ sp2 \in DOMAIN subs[s] => subs[s][sp2].f # f2
    /\ Cardinality(DOMAIN subs[s]) < MaxSubs
    /\ ~("F27" \notin Deviations /\ \E x \in DOMAIN subs[s] \ {sp1, sp2} : Menu[x] = Menu[sp1] \/ Menu[x] = Menu[sp2])
    /\ SetParams(s, << <<sp1, f1>>, <<sp2, f2>> >>, FALSE)

Unsubscribe(s, sp) ==                        \* PR_COMMAND_REMOVEPARAMETERS -> RemoveParameter; nothing is sent
    /\ s \in conn /\ s \in Subscribers /\ sp \in DOMAIN subs[s]
    /\ LET cl == Menu[sp]
           gone == cl \in DOMAIN entries[s]
           E2 == IF gone THEN Restrict(entries[s], DOMAIN entries[s] \ {cl}) ELSE entries[s]
           R2 == IF gone THEN [p \in DOMAIN refs |-> IF PathMatches(cl, p) /\ refs[p][s] > 0 THEN [refs[p] EXCEPT ![s] = @ - 1] ELSE refs[p]] ELSE refs
           S2 == Restrict(subs[s], DOMAIN subs[s] \ {sp})
       IN Finish([op |-> "unsubscribe", s |-> s, sp |-> sp], [Z0 EXCEPT !.refs = R2], [entries EXCEPT ![s] = E2], [subs EXCEPT ![s] = S2],
                 conn, maxItems, NoTaint, s, tree)

SetMaxItems(s, n) ==
    /\ s \in conn /\ s \in Subscribers /\ n \in MaxItemsMenu /\ n # maxItems[s]
    /\ Finish([op |-> "maxitems", s |-> s, n |-> n], Z0, entries, subs, conn, [maxItems EXCEPT ![s] = n], NoTaint, None, tree)

Disconnect(x) ==                             \* StorageReflectSession::Cleanup
    /\ x \in conn /\ x \in Churn
    /\ LET z1 == RemoveSub(Z0, x, <<x>>, FALSE)
           z2 == [z1 EXCEPT !.refs = [p \in DOMAIN @ |-> IF PathCount(entries[x], p) > 0 THEN [@[p] EXCEPT ![x] = 0] ELSE @[p]]]
       IN Finish([op |-> "disconnect", s |-> x], z2, [entries EXCEPT ![x] = Empty], [subs EXCEPT ![x] = Empty], conn \ {x},
                 [maxItems EXCEPT ![x] = DefaultMaxItems], NoTaint, None, DropSession(tree, x))

Connect(x) ==                                \* AttachedToServer: the session node appears
    /\ x \notin conn /\ x \in Churn
    /\ Finish([op |-> "connect", s |-> x], Create(Z0, x, <<x>>, 0, FALSE, conn \cup {x}), entries, subs, conn \cup {x}, maxItems, NoTaint, None, AddSession(tree, x))

Init == /\ conn = Sessions
        /\ tree = [p \in {<<s>> : s \in Sessions} |-> 0]
        /\ refs = [p \in {<<s>> : s \in Sessions} |-> [s \in Sessions |-> 0]]
        /\ subs = [s \in Sessions |-> Empty] /\ entries = [s \in Sessions |-> Empty]
        /\ mirror = [s \in Sessions |-> Empty] /\ unclaimed = [s \in Sessions |-> {}]
        /\ maxItems = [s \in Sessions |-> DefaultMaxItems]
        /\ bad = {} /\ last = [cmd |-> [op |-> "init"]]

Next == \/ \E w \in Writers, q \in UNION {WPaths[x] : x \in Writers}, v \in Payloads, qt \in BOOLEAN : Set(w, q, v, qt)
        \/ \E w \in Writers, k \in RemKeys, qt \in BOOLEAN : Remove(w, k, qt)
        \/ \E w \in Writers, o1, o2 \in SetOps \cup RemOps : Multi(w, o1, o2)
        \/ \E s \in Subscribers, sp \in Spellings, f \in Filters, qt \in BOOLEAN : Subscribe(s, sp, f, qt)
        \/ \E s \in Subscribers, sp1, sp2 \in Spellings, f1, f2 \in Filters : Subscribe2(s, sp1, f1, sp2, f2)
        \/ \E s \in Subscribers, sp \in Spellings : Unsubscribe(s, sp)
        \/ \E s \in Subscribers, n \in MaxItemsMenu : SetMaxItems(s, n)
        \/ \E x \in Churn : Disconnect(x) \/ Connect(x)

Spec == Init /\ [][Next]_vars

-----------------------------------------------------------------------------
(* Invariants.  Converged and TreeShape come from TreeAbs (the refinement: the variables of TreeAbs are the same ones). *)

TypeOK == /\ conn \subseteq Sessions /\ DOMAIN refs = DOMAIN tree
          /\ \A s \in Sessions : DOMAIN subs[s] \subseteq Spellings /\ maxItems[s] \in MaxItemsMenu \cup {DefaultMaxItems}
          /\ \A s \in Sessions \ conn : subs[s] = Empty /\ entries[s] = Empty /\ mirror[s] = Empty

\* the incrementally maintained counts are the recomputed ones: the number of the session's subscription parameters whose path matches
RefsExact == \A p \in DOMAIN tree : \A s \in Sessions :
                 refs[p][s] = IF s \in conn THEN Cardinality({sp \in DOMAIN subs[s] : PathMatches(subs[s][sp].cl, p)}) ELSE 0

\* the matcher holds one entry per subscription parameter, with its filter
EntriesExact == \A s \in Sessions : /\ DOMAIN entries[s] = {subs[s][sp].cl : sp \in DOMAIN subs[s]}
                                     /\ \A sp \in DOMAIN subs[s] : entries[s][subs[s][sp].cl] = subs[s][sp].f

\* no update Message contains a set followed by a remove of the same path; every step changes the tree as documented
NoSetThenRemove == "SetThenRemove" \notin bad
TreeStepsAsDocumented == "TreeStep" \notin bad

\* reachability witnesses for the vacuity guards (each must be VIOLATED)
Reach_FilteredOut == ~\E s \in conn : \E p \in DOMAIN tree : Owner(p) # s /\ p \notin DOMAIN mirror[s] /\ \E sp \in DOMAIN subs[s] : PathMatches(subs[s][sp].cl, p)
Reach_TwoSubsOneNode == ~\E p \in DOMAIN tree : \E s \in Sessions : refs[p][s] >= 2
Reach_Unclaimed == \A s \in Sessions : unclaimed[s] = {}
=============================================================================
