------------------------------- MODULE IndexTrace -------------------------------
(***************************************************************************)
(* Trace validation for C13 (code -> specification): histories recorded by   *)
(* harness/refl.cpp from the real server are checked against IndexAbs, the   *)
(* property of IndexImpl.tla.  Every line carries one command with           *)
(*   x    the PR_RESULT_INDEXUPDATED opcodes every client received during    *)
(*        it, in order: [n |-> node path, ops |-> <<<<opcode, position,      *)
(*        name>>, ...>>],                                                    *)
(*   srv  the server's index and children of every node that has an index,   *)
(*        after the command,                                                 *)
(*   trk  per client the nodes it tracks after the command that have an      *)
(*        index on the server or entries in the client's replay (C13         *)
(*        precondition: path-subscribed AND it has had a snapshot or saw     *)
(*        the index empty; untouched by quiet operations), untr the nodes    *)
(*        it is subscribed to but does NOT track.                            *)
(* TLC replays the opcodes onto its own index mirrors (clear, insert at a    *)
(* position, remove at a position - strictly: an opcode that does not fit is *)
(* recorded) and checks in every state: the replayed index of every tracked  *)
(* node equals the server's (ReplayOK); every opcode fitted (OpsFit); every  *)
(* server index lists only children, none twice (ServerIndexOK).  Linear:    *)
(* one state per line; histories are concatenated with {"e": "Reset"}.       *)
(***************************************************************************)
EXTENDS Integers, Sequences, FiniteSets, TLC, Json, IOUtils

VARIABLES imir,     \* [session -> function: node path -> replayed index]   (tracked nodes with a non-trivial index only; every other tracked node: empty)
          untr,     \* [session -> set of node paths]  explicitly NOT tracked after the previous line (came into view with entries and no snapshot, or touched quietly)
          bad,      \* sticky set of the clauses that failed
          l

TraceLog == ndJsonDeserialize(IOEnv.TRACE)
N == Len(TraceLog)
ivars == <<imir, untr, bad, l>>
Names == UNION {{s : s \in DOMAIN TraceLog[i].x} : i \in {j \in 1..N : TraceLog[j].e = "cmd"}}
Empty == [x \in {} |-> 0]
Get(r, k, d) == IF k \in DOMAIN r THEN r[k] ELSE d
Range(f) == {f[i] : i \in DOMAIN f}
Restrict(f, D) == [x \in D |-> f[x]]

InsertAt(seq, i, n) == SubSeq(seq, 1, i) \o <<n>> \o SubSeq(seq, i + 1, Len(seq))
RemoveAt(seq, i) == SubSeq(seq, 1, i) \o SubSeq(seq, i + 2, Len(seq))

\* m = [seq, ok, live]: live = the replay is meaningful (the node is not one of the untracked ones, or a clear has been seen)
RECURSIVE Replay(_, _)
Replay(m, ops) ==
    IF ops = <<>> THEN m
    ELSE LET o == Head(ops) IN
         Replay(CASE o[1] = "c" -> [seq |-> <<>>, ok |-> m.ok, live |-> TRUE]
                  [] ~m.live -> m
                  [] o[1] = "i" -> IF o[2] <= Len(m.seq) THEN [m EXCEPT !.seq = InsertAt(@, o[2], o[3])] ELSE [m EXCEPT !.seq = Append(@, o[3]), !.ok = FALSE]
                  [] o[1] = "r" -> IF o[2] < Len(m.seq) /\ m.seq[o[2] + 1] = o[3] THEN [m EXCEPT !.seq = RemoveAt(@, o[2])] ELSE [m EXCEPT !.ok = FALSE]
                  [] OTHER -> [m EXCEPT !.ok = FALSE],
                Tail(ops))

\* st = [m |-> function node -> [seq, ok, live]]; the records of one client, in order
RECURSIVE ApplyRecs(_, _, _)
ApplyRecs(st, recs, was) ==
    IF recs = <<>> THEN st
    ELSE LET r == Head(recs)
             cur == IF r.n \in DOMAIN st THEN st[r.n] ELSE [seq |-> <<>>, ok |-> TRUE, live |-> r.n \notin was]
         IN ApplyRecs((r.n :> Replay(cur, r.ops)) @@ st, Tail(recs), was)

ServerIdx(ln, n) == IF \E i \in DOMAIN ln.srv : ln.srv[i].n = n THEN ln.srv[CHOOSE i \in DOMAIN ln.srv : ln.srv[i].n = n].idx ELSE <<>>

TraceInit == /\ imir = [s \in Names |-> Empty] /\ untr = [s \in Names |-> {}] /\ bad = {} /\ l = 1 /\ TLCSet(1, 0)

TReset == /\ l <= N /\ TraceLog[l].e = "Reset"
          /\ imir' = [s \in Names |-> Empty] /\ untr' = [s \in Names |-> {}] /\ UNCHANGED bad /\ l' = l + 1

TCmd == /\ l <= N /\ TraceLog[l].e = "cmd"
        /\ LET ln == TraceLog[l]
               res == [s \in Names |-> IF s \notin DOMAIN ln.trk THEN Empty
                                        ELSE ApplyRecs([n \in DOMAIN imir[s] |-> [seq |-> imir[s][n], ok |-> TRUE, live |-> TRUE]], Get(ln.x, s, <<>>), untr[s] \cup Range(Get(ln.untr, s, <<>>)))]     \* (a node can stop being tracked within the command: a BATCH that subscribes first)
               trk2 == [s \in Names |-> IF s \in DOMAIN ln.trk THEN Range(ln.trk[s]) ELSE {}]
               Mir(s, n) == IF n \in DOMAIN res[s] /\ res[s][n].live THEN res[s][n].seq ELSE <<>>
               nb == (IF \E s \in Names : \E n \in trk2[s] : Mir(s, n) # ServerIdx(ln, n) THEN {"ReplayOK"} ELSE {})
                     \cup (IF \E s \in Names : \E n \in DOMAIN res[s] : res[s][n].live /\ ~res[s][n].ok THEN {"OpsFit"} ELSE {})
                     \cup (IF \E i \in DOMAIN ln.srv : \/ ~(Range(ln.srv[i].idx) \subseteq Range(ln.srv[i].kids))
                                                        \/ \E a, b \in DOMAIN ln.srv[i].idx : a # b /\ ln.srv[i].idx[a] = ln.srv[i].idx[b] THEN {"ServerIndexOK"} ELSE {})
           IN /\ imir' = [s \in Names |-> [n \in trk2[s] |-> Mir(s, n)]]
              /\ untr' = [s \in Names |-> Range(Get(ln.untr, s, <<>>))]
              /\ bad' = bad \cup nb
        /\ l' = l + 1

TraceNext == TReset \/ TCmd
TraceSpec == TraceInit /\ [][TraceNext]_ivars

\* acceptance: no invariant fails and the progress register (Track, printed by the POSTCONDITION Report) reaches N + 1
NotAccepted == l <= N
ReplayOK == "ReplayOK" \notin bad
OpsFit == "OpsFit" \notin bad
ServerIndexOK == "ServerIndexOK" \notin bad

Track == TLCSet(1, IF TLCGet(1) > l THEN TLCGet(1) ELSE l)
Report == PrintT(<<"maxline", TLCGet(1), "of", N>>)
=============================================================================
