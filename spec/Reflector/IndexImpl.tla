------------------------------- MODULE IndexImpl -------------------------------
(***************************************************************************)
(* C13 - ordered child indices.  DataNode.cpp (InsertOrderedChild,           *)
(* ReorderChild, RemoveChild, RemoveIndexEntry, InsertIndexEntryAt) and the  *)
(* parts of StorageReflectSession.cpp that touch an index (SetDataNode with  *)
(* the add-to-index flag, GetDataCallback's snapshot, CloneDataNodeSubtree,  *)
(* SaveNodeTreeToMessage / RestoreNodeTreeFromMessage) as coded.             *)
(*                                                                          *)
(* One writer session Owner keeps the nodes in Parents directly below its    *)
(* session node; every parent has children (a set of names), an ordered      *)
(* index (a sequence of SOME of its children) and the counter the generated  *)
(* names I<n> are taken from.  Every change of an index appends              *)
(* <<opcode, position, name>> to the log of every session with a path mark   *)
(* on the parent (filters do not matter for index updates, and the writer    *)
(* itself is notified too); a snapshot (clear + insert @ 0..n-1) is part of  *)
(* the FILTERED result of a PR_COMMAND_GETDATA / of a non-quiet subscribe.   *)
(* One command = one action; the subscribers apply their log at once.        *)
(* Less common entry points are actions of their own: an ordered insert or   *)
(* a set REFUSED because the parent holds the server's per-node child limit  *)
(* (Refusals: index and logs stay as they are, only the name counter moves); *)
(* two commands of the owner in ONE PR_COMMAND_BATCH (Batches / hold: the    *)
(* documented meaning is "in order, as if they came separately", so every    *)
(* pair - a change followed by a snapshot request, and every other order -   *)
(* is the composition of its parts and the logs must arrive in that order);  *)
(* removal of all children by wildcard; quiet subscribes and quiet removals  *)
(* (QuietOps); departure and return of the owner's session (Churn).          *)
(*                                                                          *)
(* IndexAbs (the property) is at the bottom: ReplayOK (the index replayed    *)
(* from the log equals the server's, for every subscriber that tracks the    *)
(* node: path-subscribed AND has had a snapshot or saw the index empty),     *)
(* EntriesAreChildren, NoDuplicates, OpsFit.                                 *)
(*                                                                          *)
(* Deviation of the model from the code: children are removed in index       *)
(* order when a parent goes (the code: in creation order) - the logs differ, *)
(* their replay does not.  A new node counts its generated names from 0      *)
(* (DataNode::Init since the repair of F40); `fresh` names the parents a     *)
(* command creates.                                                          *)
(* Deviations (constant): "F26" CloneDataNodeSubtree before its repair, and  *)
(* the wrong variants "pos1" (insert before the first entry reported at 1),  *)
(* "prelen" (reorder to the end uses the length before the removal),         *)
(* "silentrm" (RemoveChild does not report the index removal), "staleentry"  *)
(* (RemoveChild leaves the index entry behind).                              *)
(***************************************************************************)
EXTENDS Integers, Sequences, FiniteSets, TLC, Json

CONSTANTS Owner, Subs,          \* the writer; the sessions that subscribe (may contain Owner)
          Parents, Explicit,    \* names of the indexed parents; child names given by the client
          MaxGen,               \* generated names I0 .. I<MaxGen-1>
          MaxKids,              \* bound on the children of one parent
          PPayloads, Filters,   \* payloads of a parent; filters of a subscription (0 = none, k = "payload = k")
          Befores,              \* the insert-before arguments generated, besides the existing children ("zz" = no such child)
          Clones,               \* TRUE: clone / save+restore between parents are generated
          Refusals,             \* TRUE: MaxKids is the SERVER's per-node child limit (PR_NAME_MAX_CHILDREN_PER_NODE): inserts / sets beyond it are sent and refused
          Batches,              \* TRUE: two commands of the owner in ONE PR_COMMAND_BATCH ("executed in order, as if they came separately")
          Churn,                \* TRUE: the owner's session departs (its nodes go, subscribers are told) and a new one arrives
          QuietOps,             \* TRUE: quiet subscribes and quiet removals of children
          Deviations, RECORD

VARIABLES pv,       \* [Parents -> payload or Absent]
          kids,     \* [Parents -> set of names]
          index,    \* [Parents -> sequence of names]
          ctr,      \* [Parents -> Nat]                 _orderedCounter
          ip,       \* BOOLEAN                          _indexingPresent of the owner
          sub,      \* [Subs -> [Parents -> -1 (not subscribed) or the filter]]
          trk,      \* [Subs -> [Parents -> BOOLEAN]]   the subscriber knows the index (C13 precondition)
          imir,     \* [Subs -> [Parents -> sequence]]  the index replayed from the log
          bad,      \* ghost, sticky: an opcode did not fit the replayed index
          hold,     \* "-", or the owner has put a first command into a BATCH ("ops": it changed an index, "noops": it did not) and the second follows
          up,       \* BOOLEAN: the owner's session is connected
          last

vars == <<pv, kids, index, ctr, ip, sub, trk, imir, bad, hold, up, last>>
view == <<pv, kids, index, ctr, ip, sub, trk, imir, bad, hold, up>>

Absent == -1
RemoveFromIndex == "!Rmv"
GN == <<"I0", "I1", "I2", "I3", "I4", "I5">>
GName(k) == GN[k + 1]
Generated == {GName(k) : k \in 0..(MaxGen - 1)}
AllNames == Explicit \cup Generated
ASSUME MaxGen <= Len(GN) /\ (Refusals => MaxKids >= Cardinality(Parents))      \* (the limit also holds for the session node, the parents' parent)

Pos(seq, n) == IF \E i \in DOMAIN seq : seq[i] = n THEN CHOOSE i \in DOMAIN seq : seq[i] = n /\ \A j \in DOMAIN seq : seq[j] = n => j <= i ELSE 0   \* the LAST occurrence, 1-based (the code searches from the end)
InsertAt(seq, i, n) == SubSeq(seq, 1, i) \o <<n>> \o SubSeq(seq, i + 1, Len(seq))      \* i: 0-based position
RemoveAt(seq, i) == SubSeq(seq, 1, i) \o SubSeq(seq, i + 2, Len(seq))                  \* i: 0-based position
Range(f) == {f[i] : i \in DOMAIN f}
FilterOK(f, v) == f = 0 \/ v = f

\* --- the log and its replay (the client) --------------------------------------------------------------
Op(o, i, n) == <<o, i, n>>
RECURSIVE Replay(_, _)
Replay(m, ops) ==            \* m = [seq, ok]
    IF ops = <<>> THEN m
    ELSE LET o == Head(ops) IN
         Replay(CASE o[1] = "c" -> [seq |-> <<>>, ok |-> m.ok]
                  [] o[1] = "i" -> IF o[2] <= Len(m.seq) THEN [seq |-> InsertAt(m.seq, o[2], o[3]), ok |-> m.ok] ELSE [seq |-> Append(m.seq, o[3]), ok |-> FALSE]
                  [] o[1] = "r" -> IF o[2] < Len(m.seq) /\ m.seq[o[2] + 1] = o[3] THEN [seq |-> RemoveAt(m.seq, o[2]), ok |-> m.ok] ELSE [seq |-> m.seq, ok |-> FALSE],
                Tail(ops))

\* --- DataNode: operations on one parent; x = [kids, index, ops] -----------------------------------------
RemoveEntry(x, n) == LET i == Pos(x.index, n) IN            \* DataNode::RemoveIndexEntry
    IF i = 0 THEN x ELSE [x EXCEPT !.index = RemoveAt(@, i - 1), !.ops = Append(@, Op("r", i - 1, n))]
InsertEntry(x, n, before) ==                                 \* the index part of InsertOrderedChild / ReorderChild: before the LAST entry named (before), or at the end
    LET i == Pos(x.index, before)
        at == IF i = 0 THEN Len(x.index) ELSE i - 1
        said == IF "pos1" \in Deviations /\ at = 0 /\ Len(x.index) >= 1 THEN 1 ELSE at
    IN [x EXCEPT !.index = InsertAt(@, at, n), !.ops = Append(@, Op("i", said, n))]

X(p) == [kids |-> kids[p], index |-> index[p], ops |-> <<>>]

\* a canonical text for a state (ToString of a set or function is not canonical): vectors over fixed enumerations
RECURSIVE SeqOf(_)
SeqOf(S) == IF S = {} THEN <<>> ELSE LET x == CHOOSE y \in S : TRUE IN <<x>> \o SeqOf(S \ {x})
ParSeq == SeqOf(Parents)
SubSeqn == SeqOf(Subs)
NameSeq == SeqOf(AllNames)
Key(v, k, x, c, i, sb, t, m, b, h, u) ==
    ToString(<<h, u, [a \in DOMAIN ParSeq |-> LET p == ParSeq[a] IN <<v[p], [j \in DOMAIN NameSeq |-> IF NameSeq[j] \in k[p] THEN 1 ELSE 0], x[p], c[p]>>], i, b,
               [a \in DOMAIN SubSeqn |-> [j \in DOMAIN ParSeq |-> <<sb[SubSeqn[a]][ParSeq[j]], t[SubSeqn[a]][ParSeq[j]], m[SubSeqn[a]][ParSeq[j]]>>]]>>)

\* --- applying a command's result ---------------------------------------------------------------------------
\* P2: [Parents -> [pv, kids, index, ctr, ops]] after the command; fresh: parents created by it
Snapshot(seq) == <<Op("c", 0, "")>> \o [i \in DOMAIN seq |-> Op("i", i - 1, seq[i])]
\* x: who sends the command and what else it does: [by, up (the owner's connection afterwards), silent (parents whose index changed WITHOUT
\* a notification: nobody tracks them any longer), reset (the owner's nodes are gone for good: every other subscriber starts afresh), nobatch]
FinishX(cmd, P2, ip2, sub2, snap, fresh, x) ==      \* snap: [Subs -> set of parents whose snapshot the subscriber receives in this command]
    LET res == [s \in Subs |-> [p \in Parents |->
                   IF sub2[s][p] < 0 THEN [seq |-> <<>>, ok |-> TRUE, t |-> FALSE]
                   ELSE IF p \in x.silent THEN [seq |-> <<>>, ok |-> TRUE, t |-> FALSE]
                   ELSE LET ops == (IF sub[s][p] >= 0 THEN P2[p].ops ELSE <<>>) \o (IF p \in snap[s] THEN Snapshot(P2[p].index) ELSE <<>>)
                            \* newly path-subscribed: tracked iff the snapshot comes or there is nothing to know (no node / empty index)
                            t0 == IF sub[s][p] >= 0 THEN trk[s][p] ELSE (P2[p].pv = Absent \/ P2[p].index = <<>>)
                            t == t0 \/ p \in snap[s]
                            m0 == IF sub[s][p] >= 0 /\ trk[s][p] THEN imir[s][p] ELSE <<>>
                            r == IF t THEN Replay([seq |-> m0, ok |-> TRUE], IF t0 THEN ops ELSE Snapshot(P2[p].index)) ELSE [seq |-> <<>>, ok |-> TRUE]
                        IN IF x.reset THEN [seq |-> <<>>, ok |-> r.ok, t |-> TRUE] ELSE [seq |-> r.seq, ok |-> r.ok, t |-> t]]]
        kind == IF \E p \in Parents : P2[p].ops # <<>> THEN "ops" ELSE "noops"
    IN /\ ~(hold # "-" /\ x.by # Owner)                 \* the second command of a BATCH follows its first at once
       /\ hold' \in (IF Batches /\ x.by = Owner /\ hold = "-" /\ ~x.nobatch THEN {"-", kind} ELSE {"-"})
       /\ up' = x.up
       /\ pv' = [p \in Parents |-> P2[p].pv] /\ kids' = [p \in Parents |-> P2[p].kids] /\ index' = [p \in Parents |-> P2[p].index]
       /\ ctr' = [p \in Parents |-> P2[p].ctr] /\ ip' = ip2 /\ sub' = sub2
       /\ trk' = [s \in Subs |-> [p \in Parents |-> res[s][p].t]]
       /\ imir' = [s \in Subs |-> [p \in Parents |-> res[s][p].seq]]
       /\ bad' = (bad \/ \E s \in Subs, p \in Parents : ~res[s][p].ok)
       /\ last' = IF RECORD THEN [cmd |-> IF hold' # "-" THEN [hold |-> TRUE] @@ cmd ELSE cmd, owner |-> Owner, fresh |-> fresh, up |-> x.up,
                                  idx |-> [p \in Parents |-> P2[p].index], kids |-> [p \in Parents |-> P2[p].kids],
                                  imir |-> [s \in Subs |-> [p \in Parents |-> IF res[s][p].t THEN res[s][p].seq ELSE "-"]]]
                  ELSE last
       /\ (RECORD => PrintT("@@" \o ToJson([pre |-> Key(pv, kids, index, ctr, ip, sub, trk, imir, bad, hold, up),
                                             post |-> Key(pv', kids', index', ctr', ip', sub', trk', imir', bad', hold', up'), step |-> last'])))
XW == [by |-> Owner, up |-> TRUE, silent |-> {}, reset |-> FALSE, nobatch |-> FALSE]
Finish(cmd, P2, ip2, sub2, snap, fresh) == up /\ FinishX(cmd, P2, ip2, sub2, snap, fresh, XW)                          \* a command of the owner
FinishS(s, cmd, P2, ip2, sub2, snap, fresh) == (s = Owner => up) /\ FinishX(cmd, P2, ip2, sub2, snap, fresh, [XW EXCEPT !.by = s, !.up = up])   \* a command of subscriber s

Cur(p) == [pv |-> pv[p], kids |-> kids[p], index |-> index[p], ctr |-> ctr[p], ops |-> <<>>]
With(p, r) == [q \in Parents |-> IF q = p THEN r ELSE Cur(q)]
NoSnap == [s \in Subs |-> {}]
Q(p) == <<p>>

\* --- the writer's commands ------------------------------------------------------------------------------------
SetP(p, v) ==                 \* PR_COMMAND_SETDATA p: create (empty index, counter 0) or overwrite the payload
    /\ v \in PPayloads /\ pv[p] # v
    /\ Finish([op |-> "set", s |-> Owner, q |-> Q(p), v |-> v],
              With(p, IF pv[p] = Absent THEN [pv |-> v, kids |-> {}, index |-> <<>>, ctr |-> 0, ops |-> <<>>] ELSE [Cur(p) EXCEPT !.pv = v]),
              ip, sub, NoSnap, IF pv[p] = Absent THEN {p} ELSE {})

RECURSIVE RemoveKids(_, _)
RemoveKids(x, ns) == IF ns = <<>> THEN x ELSE RemoveKids(RemoveEntry(x, Head(ns)), Tail(ns))
RemoveP(p) ==                 \* PR_COMMAND_REMOVEDATA p: every child goes first (its index entry with it), then the node
    /\ pv[p] # Absent
    /\ LET x == RemoveKids(X(p), index[p])
       IN Finish([op |-> "remove", s |-> Owner, key |-> p], With(p, [pv |-> Absent, kids |-> {}, index |-> <<>>, ctr |-> 0, ops |-> x.ops]), ip, sub, NoSnap, {})

FreeGen(p) == {k \in ctr[p]..(MaxGen - 1) : GName(k) \notin kids[p]}
Full(p) == Cardinality(kids[p]) >= MaxKids
Insert(p, before) ==          \* PR_COMMAND_INSERTORDEREDDATA keys = p, one sub-Message filed under the name (before)
    /\ pv[p] # Absent /\ FreeGen(p) # {} /\ (Full(p) => Refusals)
    /\ before \in kids[p] \cup Befores
    /\ LET k == CHOOSE j \in FreeGen(p) : \A i \in FreeGen(p) : j <= i       \* the first name from the counter on that is not a child yet
           x == InsertEntry([X(p) EXCEPT !.kids = @ \cup {GName(k)}], GName(k), before)
       IN IF Full(p)       \* the parent is full: PutChild refuses the node AFTER the name has been taken; index and logs stay as they are
          THEN Finish([op |-> "insert", s |-> Owner, key |-> p, before |-> before, v |-> 1, refused |-> TRUE], With(p, [Cur(p) EXCEPT !.ctr = k + 1]), ip, sub, NoSnap, {})
          ELSE Finish([op |-> "insert", s |-> Owner, key |-> p, before |-> before, v |-> 1],
                      With(p, [Cur(p) EXCEPT !.kids = x.kids, !.index = x.index, !.ctr = k + 1, !.ops = x.ops]), TRUE, sub, NoSnap, {})

SetChild(p, n, toIndex) ==    \* PR_COMMAND_SETDATA p/n, plain or with the add-to-index flag
    /\ pv[p] # Absent /\ n \in AllNames /\ ~(n \notin Explicit /\ n \notin kids[p]) /\ ~(n \notin kids[p] /\ Full(p) /\ ~Refusals)   \* (no disjunctions: TLC would take them for choices)
    /\ LET x == IF n \in kids[p] THEN X(p)                                     \* existing child: the payload changes (plain) or nothing at all happens (add-to-index)
                ELSE IF Full(p) THEN X(p)                                      \* a new child of a full parent is refused: nothing happens
                ELSE IF toIndex THEN InsertEntry([X(p) EXCEPT !.kids = @ \cup {n}], n, "")
                ELSE [X(p) EXCEPT !.kids = @ \cup {n}]
       IN Finish([op |-> "set", s |-> Owner, q |-> <<p, n>>, v |-> 1, idx |-> toIndex],
                 With(p, [Cur(p) EXCEPT !.kids = x.kids, !.index = x.index, !.ops = x.ops]), ip \/ (toIndex /\ n \notin kids[p] /\ ~Full(p)), sub, NoSnap, {})

Reorder(p, n, before) ==      \* PR_COMMAND_REORDERDATA p/n -> before   (DataNode::ReorderChild)
    /\ pv[p] # Absent /\ n \in kids[p] /\ before \in kids[p] \cup Befores \cup {RemoveFromIndex}
    /\ LET x == IF before = n THEN X(p)                                         \* before itself: a no-op
                ELSE LET len0 == Len(index[p])
                         a == RemoveEntry(X(p), n)
                     IN IF before = RemoveFromIndex THEN a
                        ELSE IF "prelen" \in Deviations /\ Pos(a.index, before) = 0
                             THEN [a EXCEPT !.index = Append(@, n), !.ops = Append(@, Op("i", len0, n))]
                             ELSE InsertEntry(a, n, IF before \in kids[p] THEN before ELSE "")
       IN Finish([op |-> "reorder", s |-> Owner, path |-> p \o "/" \o n, before |-> before], With(p, [Cur(p) EXCEPT !.index = x.index, !.ops = x.ops]), ip, sub, NoSnap, {})

RemoveChild(p, n, quiet) ==   \* PR_COMMAND_REMOVEDATA p/n; quietly: the entry leaves the index without a word - nobody can track that index any longer
    /\ pv[p] # Absent /\ n \in kids[p] /\ (quiet => QuietOps /\ hold = "-")      \* (a quiet removal is not put into a BATCH: what follows it there cannot be replayed)
    /\ LET a == RemoveEntry(X(p), n)
           x == IF "silentrm" \in Deviations \/ quiet THEN [a EXCEPT !.ops = <<>>] ELSE IF "staleentry" \in Deviations THEN X(p) ELSE a
       IN FinishX([op |-> "remove", s |-> Owner, key |-> p \o "/" \o n, quiet |-> quiet], With(p, [Cur(p) EXCEPT !.kids = @ \ {n}, !.index = x.index, !.ops = x.ops]), ip, sub, NoSnap, {},
                  [XW EXCEPT !.silent = IF quiet /\ Pos(index[p], n) # 0 THEN {p} ELSE {}, !.nobatch = quiet]) /\ up

RemoveKidsWild(p) ==          \* PR_COMMAND_REMOVEDATA p/*: every child in one command
    /\ pv[p] # Absent /\ kids[p] # {}
    /\ LET x == RemoveKids(X(p), index[p])
       IN Finish([op |-> "remove", s |-> Owner, key |-> p \o "/*"], With(p, [Cur(p) EXCEPT !.kids = {}, !.index = x.index, !.ops = x.ops]), ip, sub, NoSnap, {})

\* CloneDataNodeSubtree(src, "dst"): payload and children are set plainly, then every entry of the source index is (removed from and)
\* inserted into the clone's index at 0, 1, 2, ...
RECURSIVE CloneIdx(_, _, _)
CloneIdx(x, ns, w) == IF ns = <<>> THEN x
                      ELSE LET n == Head(ns)
                               a == IF "F26" \in Deviations THEN x ELSE RemoveEntry(x, n)
                           IN CloneIdx([a EXCEPT !.index = InsertAt(@, w, n), !.ops = Append(@, Op("i", w, n))], Tail(ns), w + 1)
Clone(src, dst) ==
    /\ Clones /\ src # dst /\ pv[src] # Absent /\ Cardinality(kids[dst] \cup kids[src]) <= MaxKids
    /\ LET x == CloneIdx([X(dst) EXCEPT !.kids = @ \cup kids[src]], index[src], 0)
       IN Finish([op |-> "clone", s |-> Owner, from |-> src, to |-> dst],
                 With(dst, [pv |-> pv[src], kids |-> x.kids, index |-> x.index, ctr |-> IF pv[dst] = Absent THEN 0 ELSE ctr[dst], ops |-> x.ops]),
                 ip, sub, NoSnap, IF pv[dst] = Absent THEN {dst} ELSE {})

\* SaveNodeTreeToMessage(src) + RestoreNodeTreeFromMessage(-> dst): the indexed children first, in index order, with the add-to-index
\* flag (an existing child is left alone), then the others plainly
RECURSIVE RestoreIdx(_, _)
RestoreIdx(x, ns) == IF ns = <<>> THEN x
                     ELSE RestoreIdx(IF Head(ns) \in x.kids THEN x ELSE InsertEntry([x EXCEPT !.kids = @ \cup {Head(ns)}], Head(ns), ""), Tail(ns))
Restore(src, dst) ==
    /\ Clones /\ pv[src] # Absent /\ Cardinality(kids[dst] \cup kids[src]) <= MaxKids
    /\ LET a == RestoreIdx(X(dst), index[src])
           x == [a EXCEPT !.kids = @ \cup kids[src]]
       IN Finish([op |-> "restore", s |-> Owner, from |-> src, to |-> dst],
                 With(dst, [pv |-> pv[src], kids |-> x.kids, index |-> x.index, ctr |-> IF pv[dst] = Absent THEN 0 ELSE ctr[dst], ops |-> x.ops]),
                 ip \/ \E n \in Range(index[src]) : n \notin kids[dst], sub, NoSnap, IF pv[dst] = Absent THEN {dst} ELSE {})

\* --- the subscribers' commands ----------------------------------------------------------------------------------
\* GetDataCallback: the snapshot is part of the filtered result; a session's own subtree is skipped unless _indexingPresent
Sends(s, p, f) == pv[p] # Absent /\ FilterOK(f, pv[p]) /\ index[p] # <<>> /\ (s # Owner \/ ip)
P0 == [p \in Parents |-> Cur(p)]

Subscribe(s, p, f, quiet) ==  \* SUBSCRIBE:p, first time or again with another filter; quietly: no initial result
    /\ f \in Filters /\ sub[s][p] # f /\ (quiet => QuietOps)
    /\ FinishS(s, [op |-> "subscribe", s |-> s, subs |-> <<[sp |-> p, f |-> f]>>, quiet |-> quiet], P0, ip, [sub EXCEPT ![s][p] = f],
               [x \in Subs |-> IF x = s /\ ~quiet /\ Sends(s, p, f) THEN {p} ELSE {}], {})
Unsubscribe(s, p) ==
    /\ sub[s][p] >= 0
    /\ FinishS(s, [op |-> "unsubscribe", s |-> s, sp |-> p], P0, ip, [sub EXCEPT ![s][p] = -1], NoSnap, {})
GetData(s, p) ==              \* the snapshot on request (first sync of an untracked node, or a re-sync)
    /\ sub[s][p] >= 0 /\ Sends(s, p, 0)
    /\ FinishS(s, [op |-> "getdata", s |-> s, sp |-> p, f |-> 0], P0, ip, sub, [x \in Subs |-> IF x = s THEN {p} ELSE {}], {})

\* --- the owner's session goes and comes -------------------------------------------------------------------------------
Depart ==                     \* StorageReflectSession::Cleanup: every node of the session goes (index entries first), its own subscriptions with it
    /\ Churn /\ up
    /\ FinishX([op |-> "disconnect", s |-> Owner],
               [p \in Parents |-> [pv |-> Absent, kids |-> {}, index |-> <<>>, ctr |-> 0, ops |-> RemoveKids(X(p), index[p]).ops]], FALSE,
               [s \in Subs |-> IF s = Owner THEN [p \in Parents |-> -1] ELSE sub[s]], NoSnap, {},
               [by |-> "-", up |-> FALSE, silent |-> {}, reset |-> TRUE, nobatch |-> TRUE])
Arrive ==                     \* a new session of the owner: new node paths, nothing below them yet
    /\ Churn /\ ~up
    /\ FinishX([op |-> "connect", s |-> Owner], P0, FALSE, sub, NoSnap, {}, [by |-> "-", up |-> TRUE, silent |-> {}, reset |-> FALSE, nobatch |-> TRUE])

Init == /\ pv = [p \in Parents |-> Absent] /\ kids = [p \in Parents |-> {}] /\ index = [p \in Parents |-> <<>>] /\ ctr = [p \in Parents |-> 0]
        /\ ip = FALSE /\ sub = [s \in Subs |-> [p \in Parents |-> -1]] /\ trk = [s \in Subs |-> [p \in Parents |-> FALSE]]
        /\ imir = [s \in Subs |-> [p \in Parents |-> <<>>]] /\ bad = FALSE /\ hold = "-" /\ up = TRUE /\ last = [cmd |-> [op |-> "init"]]

Next == \/ \E p \in Parents, v \in PPayloads : SetP(p, v)
        \/ \E p \in Parents : RemoveP(p)
        \/ \E p \in Parents, b \in AllNames \cup Befores : Insert(p, b)
        \/ \E p \in Parents, n \in AllNames, ti \in BOOLEAN : SetChild(p, n, ti)
        \/ \E p \in Parents, n \in AllNames, b \in AllNames \cup Befores \cup {RemoveFromIndex} : Reorder(p, n, b)
        \/ \E p \in Parents, n \in AllNames, qt \in BOOLEAN : RemoveChild(p, n, qt)
        \/ \E p \in Parents : RemoveKidsWild(p)
        \/ \E p, q \in Parents : Clone(p, q) \/ Restore(p, q)
        \/ \E s \in Subs, p \in Parents, f \in Filters, qt \in BOOLEAN : Subscribe(s, p, f, qt)
        \/ \E s \in Subs, p \in Parents : Unsubscribe(s, p) \/ GetData(s, p)
        \/ Depart \/ Arrive
Spec == Init /\ [][Next]_vars

-----------------------------------------------------------------------------
(* IndexAbs: the property *)
TypeOK == /\ \A p \in Parents : kids[p] \subseteq AllNames /\ ctr[p] \in 0..MaxGen /\ (pv[p] = Absent => kids[p] = {} /\ index[p] = <<>>)
          /\ \A s \in Subs, p \in Parents : sub[s][p] \in {-1} \cup Filters /\ (trk[s][p] => sub[s][p] >= 0)
\* the index a client replays from its log - starting from a snapshot or from a node it saw without entries - is the server's
ReplayOK == \A s \in Subs, p \in Parents : trk[s][p] => imir[s][p] = index[p]
\* every opcode of the log fits the replayed index (insert positions within the length, removals name the entry at their position)
OpsFit == ~bad
EntriesAreChildren == \A p \in Parents : Range(index[p]) \subseteq kids[p]
NoDuplicates == \A p \in Parents : \A i, j \in DOMAIN index[p] : i # j => index[p][i] # index[p][j]

\* reachability witnesses for the vacuity guards (each must be VIOLATED)
Reach_Untracked == ~\E s \in Subs, p \in Parents : sub[s][p] >= 0 /\ ~trk[s][p] /\ index[p] # <<>>
Reach_Skip == ~\E p \in Parents : \E k \in 0..(MaxGen - 1) : k < ctr[p] - 1 /\ GName(k) \in Explicit /\ GName(k) \in kids[p] /\ GName(ctr[p] - 1) \in kids[p]
Reach_Long == \A p \in Parents : Len(index[p]) < 3
=============================================================================
