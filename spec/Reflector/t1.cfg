SPECIFICATION Spec
CONSTANTS
  Sessions = {"W1", "S"}
  Writers = {"W1"}
  Subscribers = {"S"}
  Churn = {}
  DeepWriters = {"W1"}
  DeepPaths = {"a", "b", "a/a", "a/b"}
  FlatPaths = {"a", "b"}
  Payloads = {1, 2}
  Spellings = {"a", "*", "a/*", "*/b"}
  RemKeys = {"a", "*", "a/*"}
  Filters = {0, 1}
  MaxSubs = 2
  MaxItemsMenu = {1, 2, 50}
  Quiet = FALSE
  MultiOps = TRUE
  MultiSub = TRUE
  Deviations = {}
  RECORD = FALSE
INVARIANTS TypeOK TreeShape Converged RefsExact EntriesExact NoSetThenRemove TreeStepsAsDocumented
