------------------------------- MODULE TreeAbs -------------------------------
(***************************************************************************)
(* C04 - the property.  The server keeps a tree of nodes; every session     *)
(* owns the subtree below its session node.  A session subscribes to node-   *)
(* path patterns, optionally with a content filter, and maintains a mirror   *)
(* from the update Messages the server sends it.  In every quiescent state   *)
(* (every state of this model: a command and the flush of its updates are    *)
(* one step) the mirror, restricted to OTHER sessions' nodes, is exactly the *)
(* set of nodes its subscriptions select, with their current payloads.       *)
(*                                                                          *)
(* A path is <<session, n1, ..., nk>>, k >= 0 (k = 0: the session node,      *)
(* /host/session in the server).  A pattern is a sequence of clauses that    *)
(* is matched against <<n1, ..., nk>> (the two leading clauses of every      *)
(* subscription are host and session wildcards: "a" is "/*/*/a"); a clause   *)
(* is a sequence of alternatives, "*" matches every name ("a,b" is           *)
(* <<"a", "b">>).  A filter is 0 (none) or k > 0 ("payload = k"; the payload *)
(* of a node is the what-code of its Message, 0 for implicitly created       *)
(* parents and session nodes).                                               *)
(*                                                                          *)
(* CLIENT PROTOCOL (DESIGN.md C04): the server is silent when a subscription *)
(* is removed and when one is added quietly.  The client therefore (i)       *)
(* applies every update in order, removals before sets, and (ii) when IT     *)
(* removes a subscription drops the mirrored nodes that none of its          *)
(* remaining subscriptions (path and filter, on the mirrored payload) still  *)
(* select.  Nodes touched by a quiet operation are outside the claim         *)
(* (unclaimed) until the client is told about them again.                    *)
(***************************************************************************)
EXTENDS Integers, Sequences, FiniteSets, TLC

VARIABLES tree,       \* function: path of a present node -> payload
          conn,       \* set of connected sessions
          subs,       \* [session -> function: spelling of a SUBSCRIBE: parameter -> [cl |-> pattern, f |-> filter]]
          mirror,     \* [session -> function: path -> payload]   what the client has reconstructed
          unclaimed   \* [session -> set of paths]  touched quietly since the client last heard of them: outside the claim

Absent == -1
Owner(p) == p[1]
Restrict(f, D) == [x \in D |-> f[x]]
Empty == [x \in {} |-> 0]
IsPrefix(a, b) == Len(a) <= Len(b) /\ SubSeq(b, 1, Len(a)) = a

ClauseMatches(c, n) == \E i \in DOMAIN c : c[i] = "*" \/ c[i] = n
PathMatches(cl, p)  == Len(cl) = Len(p) - 1 /\ \A i \in DOMAIN cl : ClauseMatches(cl[i], p[i + 1])
FilterOK(f, v)      == f = 0 \/ v = f
Selects(e, p, v)    == PathMatches(e.cl, p) /\ FilterOK(e.f, v)
Selected(S, p, v)   == \E sp \in DOMAIN S : Selects(S[sp], p, v)

\* what the mirror of s must hold (other sessions' nodes only)
Expected(s) == LET D == {p \in DOMAIN tree : Owner(p) # s /\ Selected(subs[s], p, tree[p])} IN Restrict(tree, D)

ConvergedFor(s) ==
    \A p \in (DOMAIN mirror[s] \cup DOMAIN Expected(s)) :
        (Owner(p) # s /\ p \notin unclaimed[s]) =>
            /\ p \in DOMAIN mirror[s]          \* no matching node missing
            /\ p \in DOMAIN Expected(s)        \* none extra
            /\ mirror[s][p] = tree[p]          \* none stale
Converged == \A s \in conn : ConvergedFor(s)

\* the tree is prefix closed and every connected session has its session node, nobody else has nodes
TreeShape == /\ \A p \in DOMAIN tree : Owner(p) \in conn /\ (Len(p) > 1 => SubSeq(p, 1, Len(p) - 1) \in DOMAIN tree)
             /\ \A s \in conn : <<s>> \in DOMAIN tree

-----------------------------------------------------------------------------
(* The documented effect of the commands on the tree (StorageReflectConstants.h), used by the trace specification  *)
(* and as the abstract step every SubsImpl step is compared with.                                                  *)

Prefixes(w, q) == {<<w>> \o SubSeq(q, 1, i) : i \in 1..Len(q)}

\* PR_COMMAND_SETDATA of relative path q with payload v by session w: missing parents are created with an empty payload.
\* dontCreate: fails (no change at all) when any node of the path is missing; dontOverwrite: an existing node keeps its payload
SetTree(t, w, q, v, dontCreate, dontOverwrite) ==
    LET full == <<w>> \o q
        D == DOMAIN t \cup Prefixes(w, q)
    IN IF dontCreate /\ ~(Prefixes(w, q) \subseteq DOMAIN t) THEN t
       ELSE IF dontOverwrite /\ full \in DOMAIN t THEN t
       ELSE [p \in D |-> IF p = full THEN v ELSE IF p \in DOMAIN t THEN t[p] ELSE 0]

\* PR_COMMAND_REMOVEDATA: every node below w's session node matched by one of the keys goes, with its subtree
RemoveTree(t, w, keys) ==
    LET hit == {p \in DOMAIN t : Owner(p) = w /\ Len(p) >= 2 /\ \E k \in keys : PathMatches(k, p)}
    IN Restrict(t, {p \in DOMAIN t : ~\E h \in hit : IsPrefix(h, p)})

DropSession(t, x) == Restrict(t, {p \in DOMAIN t : Owner(p) # x})
AddSession(t, x)  == (<<x>> :> 0) @@ t

-----------------------------------------------------------------------------
(* The client *)

\* an update Message as the client sees it: [rem |-> sequence of paths, set |-> sequence of <<path, payload>>]; removals first, then sets in order
ApplyUpdate(s, m, u) ==
    LET rems == {u.rem[i] : i \in DOMAIN u.rem}
        sets == {i \in DOMAIN u.set : Owner(u.set[i][1]) # s}
        setp == {u.set[i][1] : i \in sets}
        LastOf(p) == CHOOSE i \in sets : u.set[i][1] = p /\ \A j \in sets : u.set[j][1] = p => j <= i
        D == (DOMAIN m \ rems) \cup setp
    IN [p \in D |-> IF p \in setp THEN u.set[LastOf(p)][2] ELSE m[p]]

RECURSIVE ApplyAll(_, _, _)
ApplyAll(s, m, us) == IF us = <<>> THEN m ELSE ApplyAll(s, ApplyUpdate(s, m, Head(us)), Tail(us))

Mentioned(us) == UNION {{us[k].rem[i] : i \in DOMAIN us[k].rem} \cup {us[k].set[i][1] : i \in DOMAIN us[k].set} : k \in DOMAIN us}

\* (ii) of the client protocol
Prune(m, S) == Restrict(m, {p \in DOMAIN m : Selected(S, p, m[p])})

=============================================================================
