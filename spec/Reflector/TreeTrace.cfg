SPECIFICATION TraceSpec
INVARIANTS NotAccepted Converged TreeAsDocumented
CONSTRAINT Track
POSTCONDITION Report
