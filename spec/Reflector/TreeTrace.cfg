SPECIFICATION TraceSpec
INVARIANTS Converged TreeAsDocumented
CONSTRAINT Track
POSTCONDITION Report
