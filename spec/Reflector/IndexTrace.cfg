SPECIFICATION TraceSpec
INVARIANTS NotAccepted ReplayOK OpsFit ServerIndexOK
CONSTRAINT Track
POSTCONDITION Report
