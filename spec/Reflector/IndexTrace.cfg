SPECIFICATION TraceSpec
INVARIANTS ReplayOK OpsFit ServerIndexOK
CONSTRAINT Track
POSTCONDITION Report
