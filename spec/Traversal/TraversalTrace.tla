--------------------------- MODULE TraversalTrace ---------------------------
(***************************************************************************)
(* Binding of Traversal.tla to the real code (property C05, function-oracle *)
(* direction).  harness/route.cpp "trav" ran the real                       *)
(* NodePathMatcher::DoTraversal on every case of a bounded space and wrote   *)
(* one line per case; one TLC state per line (the file is sharded over       *)
(* several TLC processes).  The case of the line becomes the variable c of   *)
(* Traversal.tla, so the invariants TraversalExact / RouteOnce / StopOnce    *)
(* are checked ON THE MODEL for exactly the cases the code was run on, and   *)
(* LineOK compares what the code did with the model and with the property.   *)
(*                                                                           *)
(* Line 1: {"hdr", "fam", "host", "ids", "table": what the real StringMatcher*)
(* says about every clause token (kind, names matched)}.                     *)
(* Other lines: i = case number (families "core" "full" "tri": CaseOf(i) of  *)
(* the specification must be the recorded case), t = subtree codes of the    *)
(* three sessions, w = what-code variant, p = the keys [abs, cl, f],         *)
(* m = callback mode, v = the nodes the callback was called on, in order,    *)
(* n = DoTraversal's return value, b = the nodes for which the real          *)
(* PathMatcher::MatchesPath said yes (every node of the tree was asked).     *)
(***************************************************************************)
EXTENDS Traversal, IOUtils

Log == ndJsonDeserialize(IOEnv.TRACE)
Hdr == Log[1]
Indexed == Hdr.fam \in {"core", "lists", "bs", "full", "tri"}

VARIABLE i
CaseOfLine(ln) == [tree |-> TreeOf(ln.t, ln.w), pats |-> ln.p, mode |-> ln.m]
TInit == i \in 2..Len(Log) /\ c = CaseOfLine(Log[i])
TNext == UNCHANGED <<i, c>>
TSpec == TInit /\ [][TNext]_<<i, c>>

\* the real StringMatcher agrees with the clause table of Traversal.tla on the names in use (its correctness in general is C15)
TableOK == TableAgrees(Hdr.table, 3)

\* names of what is wrong with a line:
\*  "prop"  the property fails on what the code did (visited set # brute-force set / twice / not once per session / not once)
\*  "brute" the real MatchesPath, asked node by node, does not give the set the patterns denote
\*  "algo"  the code did not do what the algorithm-level model does (order of the callbacks included)
\*  "space" the harness and the specification do not enumerate the same space (a defect of the machinery)
Bad(ln) == (IF PropOn(c, ln.v) /\ ln.n = Len(ln.v) THEN {} ELSE {"prop"})
           \cup (IF Range(ln.b) = Brute(c) /\ Len(ln.b) = Cardinality(Range(ln.b)) THEN {} ELSE {"brute"})
           \cup (IF ln.v = Visit(c) THEN {} ELSE {"algo"})
           \cup (IF Indexed /\ CaseOf(ln.i) # c THEN {"space"} ELSE {})

Twice(ln) == \E s \in Range(SessN) : Times([k \in 1..Len(ln.v) |-> IF Len(ln.v[k]) >= 2 THEN SessOf(ln.v[k]) ELSE "-"], s) = 2
\* registers (one worker): 1..6 as in Traversal.tla (Count), 7 lines with something wrong, 8 lines where the open finding F25 showed (two callbacks for one session)
LineOK == LET ln == Log[i]
              bad == Bad(ln)
          IN /\ ((ln.m = "skip" /\ Twice(ln)) => Bump(8))
             /\ (bad # {} => (Bump(7) /\ PrintT("@@" \o ToJson([line |-> i, i |-> ln.i, bad |-> bad, m |-> ln.m, p |-> ln.p, t |-> ln.t, w |-> ln.w, v |-> ln.v, b |-> ln.b,
                                                                 model |-> Visit(c), brute |-> Brute(c)]))))
             /\ bad = {}

ZeroRegs2 == TLCSet(7, 0) /\ TLCSet(8, 0)
ASSUME ZeroRegs2
TSummary == PrintT("@@" \o ToJson([summary |-> TRUE, lines |-> Len(Log) - 1, cases |-> TLCGet(1), nonempty |-> TLCGet(2), multi |-> TLCGet(3), f25 |-> TLCGet(4), lookup |-> TLCGet(5),
                                    samedepth |-> TLCGet(6), bad_lines |-> TLCGet(7), f25_twice |-> TLCGet(8), table_ok |-> TableOK, fam |-> Hdr.fam, total |-> Total]))
=============================================================================
