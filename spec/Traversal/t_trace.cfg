SPECIFICATION TSpec
CONSTANTS
  Deviations = {"F25"}
  UNIVERSE = "core"
  SHARD = 0
  NSHARDS = 1
INVARIANTS TraversalExact RouteOnce StopOnce Count LineOK
POSTCONDITION TSummary
