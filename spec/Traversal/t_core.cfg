SPECIFICATION Spec
CONSTANTS
  Deviations = {"F25"}
  UNIVERSE = "core"
  SHARD = 0
  NSHARDS = 8
INVARIANTS TraversalExact RouteOnce StopOnce Count
POSTCONDITION Summary
