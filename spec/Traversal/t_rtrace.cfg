SPECIFICATION TraceSpec
CONSTANTS
  Deviations = {"F25"}
  UNIVERSE = "none"
  SHARD = 0
  NSHARDS = 1
  N = 4
  Senders = {}
  KeyMenu <- KM_fifo
  DefMenu <- DM_one
  SetMenu <- RM_none
  RmMenu <- RM_none
  Forges = {}
  MaxSends = 0
  MaxOps = 0
  RECORD = FALSE
INVARIANTS Track
POSTCONDITION Report
