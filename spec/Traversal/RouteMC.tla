------------------------------ MODULE RouteMC ------------------------------
(* Menus for the model-checked / generating instances of Route.tla (a .cfg file cannot hold records and sequences). *)
EXTENDS Route

R(cl, f) == [abs |-> FALSE, cl |-> cl, f |-> f]      \* a key without a leading slash: "*/*/" is prepended
A(cl, f) == [abs |-> TRUE,  cl |-> cl, f |-> f]      \* a key with a leading slash, from the root

\* keys of a Message: none; one; the documentation's two-keys-one-receiver shape; a filter; the same path twice (written both ways) with
\* different filters; a comma list; a session-node key; a host-only key; a key for one session's nodes; two keys of one depth (F2's shape); F25's shape (last)
KM_full == << << >>,
              <<R(<<"a">>, 0)>>,
              <<R(<<"a">>, 0), R(<<"b">>, 0)>>,
              <<R(<<"*">>, 1)>>,
              <<R(<<"a">>, 1), A(<<"*", "*", "a">>, 2)>>,
              <<R(<<"b,a", "b,\\a">>, 0), R(<<"~a">>, 2)>>,
              <<A(<<"*", "1">>, 0)>>,
              <<A(<<"*">>, 0)>>,
              <<A(<<"*", "1,0", "?">>, 0), A(<<"h", "*", "a", "b">>, 0)>>,
              <<R(<<"*", "*">>, 0), R(<<"a">>, 0), R(<<"\\a">>, 0)>>,
              <<A(<<"*", "1", "*">>, 0), A(<<"*", "*", "a">>, 0)>>,
              <<R(<<"a,c">>, 0), R(<<"b,c">>, 0)>>,
              <<A(<<"*", "2,1">>, 0), A(<<"h", "1,0">>, 0)>>,
              <<A(<<"*", "1">>, 0), R(<<"a">>, 0)>> >>
KM_noF25 == SubSeq(KM_full, 1, Len(KM_full) - 1)
KM_fifo  == << << >>, <<R(<<"a">>, 0)>>, <<A(<<"*", "1">>, 0)>> >>
DM_full  == << <<R(<<"a">>, 0)>>, <<R(<<"b">>, 2), R(<<"a", "b">>, 0)>> >>
DM_one   == << <<R(<<"a">>, 0)>> >>
SM_full  == {[s |-> "0", path |-> <<"a">>, w |-> 1], [s |-> "1", path |-> <<"a">>, w |-> 1], [s |-> "1", path |-> <<"b">>, w |-> 2],
             [s |-> "1", path |-> <<"a", "b">>, w |-> 1], [s |-> "2", path |-> <<"a">>, w |-> 2], [s |-> "2", path |-> <<"b", "a">>, w |-> 2]}
SM_small == {[s |-> "0", path |-> <<"a">>, w |-> 1], [s |-> "1", path |-> <<"a">>, w |-> 1], [s |-> "2", path |-> <<"b">>, w |-> 2], [s |-> "1", path |-> <<"a", "b">>, w |-> 2]}
RM_full  == {[s |-> "1", name |-> "a"], [s |-> "2", name |-> "b"]}
RM_none  == {}
=============================================================================
