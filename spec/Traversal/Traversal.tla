------------------------------ MODULE Traversal ------------------------------
(***************************************************************************)
(* C05 - the pattern-directed walk of the node tree, AS CODED in            *)
(* reflector/StorageReflectSession.cpp: NodePathMatcher::DoTraversal /      *)
(* DoTraversalAux / DoDirectChildLookup / CheckChildForTraversal, and the   *)
(* entry table of regex/PathMatcher.cpp (PutPathsFromMessage).              *)
(*                                                                          *)
(* A node is its path from the root: a sequence of names; depth = length.   *)
(* A tree is a function from a prefix-closed set of paths to the what-code  *)
(* of the node's Message (0 for the root, host and session nodes).          *)
(* Names are abstract: host "h", sessions "0" "1" "2" ("3") (the harness    *)
(* maps them to the real host name and session ids), user names "a" "b".    *)
(* Clause-level matching is C15's business: it is the table MatchSet /      *)
(* Kind / Lits below over these names - the clause menu {literal, escaped   *)
(* literal \a, *, ?, (a|c), list b,a, list with an escaped item b,\a, ~a;   *)
(* at the session level: literal id, list 1,0, range <0-1>, ~0} - and       *)
(* TraversalTrace / RouteTrace check the table against what the real        *)
(* StringMatcher answered in the same run.                                  *)
(*                                                                          *)
(* A case is [tree, pats, mode]:                                            *)
(*  pats = the keys of one Message in order: [abs, cl, f] - written with a  *)
(*         leading slash or not (then "*/*/" is prepended), clause tokens,  *)
(*         filter (0 = none, w = "what-code is w");                         *)
(*  mode = what the callback returns: "all" its node's depth (continue      *)
(*         normally), "skip" 2 = NODE_DEPTH_SESSIONNAME (resume at the next *)
(*         session: the routing callbacks), "stop" 0 (terminate).           *)
(*                                                                          *)
(* Deviations names the defects the model is to have:                       *)
(*   "F2"  the conspiracy guard counts depth buckets, not patterns          *)
(*   "F24" the two unwinding tests compare with the child's depth - 1       *)
(*         (both repaired in /repo: the reverse patches must violate the    *)
(*          invariants - that is the vacuity guard of this module)          *)
(*   "F25" OPEN finding, inherent in the algorithm below (a callback on the *)
(*         session node itself cannot say "do not descend"): the name only  *)
(*         switches the exemption in RouteOnce on                           *)
(*   "NoAlreadyDid", "FastPathFirstEntry", "ScratchPerBucket"               *)
(*         deliberately wrong variants, to show that each invariant can fail*)
(***************************************************************************)
EXTENDS Naturals, Sequences, FiniteSets, TLC, Json

CONSTANTS Deviations,
          UNIVERSE,       \* which bounded space Init enumerates: "core", "lists", "bs", "full", "tri" ("none": no initial state, for modules that set c themselves)
          SHARD, NSHARDS  \* Init takes the cases whose index is SHARD modulo NSHARDS (TLC computes initial states on one thread)

VARIABLE c                \* the case
vars == <<c>>

\* ------------------------------------------------------------------ names and clause tokens
HostN == "h"
SessN == <<"0", "1", "2", "3">>                    \* "3" only exists in routing histories with four sessions
\* in the universe "bs" the second user name is  a\  (it contains a backslash: clauses with an ESCAPED backslash in front of a wildcard / comma)
SecondName == IF UNIVERSE = "bs" THEN "a\\" ELSE "b"
UserN == <<"a", SecondName>>
KidNames(d) == IF d = 0 THEN <<HostN>> ELSE IF d = 1 THEN SessN ELSE UserN     \* possible names of the children of a node at depth d, in creation order
AllNames == {"h", "0", "1", "2", "3", "a", "b", "a\\"}

\* the strings a clause matches, among the names above
MatchSet(t) == CASE t = "*"     -> AllNames
                 [] t = "h"     -> {"h"}
                 [] t = "0"     -> {"0"}
                 [] t = "1"     -> {"1"}
                 [] t = "2"     -> {"2"}
                 [] t = "3"     -> {"3"}
                 [] t = "1,0"   -> {"0", "1"}
                 [] t = "2,1"   -> {"1", "2"}
                 [] t = "<0-1>" -> {"0", "1"}
                 [] t = "~0"    -> AllNames \ {"0"}
                 [] t = "a"     -> {"a"}
                 [] t = "b"     -> {"b"}
                 [] t = "\\a"   -> {"a"}
                 [] t = "?"     -> AllNames \ {"a\\"}                     \* one character
                 [] t = "a\\\\"  -> {"a\\"}                                \* a, escaped backslash: the literal name a\
                 [] t = "a\\\\*" -> {"a\\"}                                \* a, escaped backslash, REAL star
                 [] t = "x\\\\,a" -> {"a"}                                   \* a list: x\ and a (the comma is not escaped)
                 [] t = "(a|c)" -> {"a"}
                 [] t = "b,a"   -> {"a", "b"}
                 [] t = "a,c"   -> {"a"}
                 [] t = "b,c"   -> {"b"}
                 [] t = "b,\\a" -> {"a", "b"}
                 [] t = "~a"    -> AllNames \ {"a"}
Tokens == {"a\\\\", "a\\\\*", "x\\\\,a", "*", "h", "0", "1", "2", "3", "1,0", "2,1", "a,c", "b,c", "<0-1>", "~0", "a", "b", "\\a", "?", "(a|c)", "b,a", "b,\\a", "~a"}
ClMatch(t, n) == n \in MatchSet(t)
\* "U" IsPatternUnique, "L" IsPatternListOfUniqueValues, "W" anything else ("*" is stored as a NULL matcher)
Kind(t) == IF t \in {"h", "0", "1", "2", "3", "a", "b", "\\a", "a\\\\"} THEN "U" ELSE IF t \in {"1,0", "2,1", "b,a", "b,\\a", "a,c", "b,c", "x\\\\,a"} THEN "L" ELSE "W"
\* the keys of the hash lookups: the items of the list, unescaped, in order
Lits(t) == CASE t = "a\\\\" -> <<"a\\">> [] t = "x\\\\,a" -> <<"x\\", "a">> [] t = "1,0" -> <<"1", "0">> [] t = "2,1" -> <<"2", "1">> [] t = "a,c" -> <<"a", "c">> [] t = "b,c" -> <<"b", "c">> [] t = "b,a" -> <<"b", "a">> [] t = "b,\\a" -> <<"b", "a">> [] t = "\\a" -> <<"a">> [] OTHER -> <<t>>

\* what the real StringMatcher answered about the tokens (rows [t, lvl, k, m] written by the harness) agrees with the table above, on the names of n sessions
RowOK(r, n) == /\ r.t \in Tokens
               /\ r.k = Kind(r.t)
               /\ {r.m[j] : j \in 1..Len(r.m)} = MatchSet(r.t) \cap (IF r.lvl = 1 THEN {SessN[j] : j \in 1..n} ELSE {KidNames(r.lvl)[j] : j \in 1..Len(KidNames(r.lvl))})
TableAgrees(rows, n) == \A k \in 1..Len(rows) : RowOK(rows[k], n)

\* ------------------------------------------------------------------ the entry table (PathMatcher::_entries)
Norm(p) == IF p.abs THEN p.cl ELSE <<"*", "*">> \o p.cl                        \* AdjustStringPrefix(DEFAULT_PATH_PREFIX)
\* one entry per distinct normalised path, at the position of its first Put, holding the filter of its LAST Put
RECURSIVE Dedupe(_, _, _)
Dedupe(ps, i, acc) ==
  IF i > Len(ps) THEN acc
  ELSE LET cl == Norm(ps[i])
           J  == {j \in 1..Len(acc) : acc[j].cl = cl}
       IN IF J = {} THEN Dedupe(ps, i + 1, Append(acc, [cl |-> cl, f |-> ps[i].f]))
          ELSE LET j == CHOOSE x \in J : TRUE
               IN Dedupe(ps, i + 1, [acc EXCEPT ![j].f = ps[i].f])
\* iteration order: depth buckets in order of first insertion, inside a bucket in order of insertion
RECURSIVE BucketOrder(_, _, _)
BucketOrder(es, i, acc) == IF i > Len(es) THEN acc
                           ELSE IF \E j \in 1..Len(acc) : acc[j] = Len(es[i].cl) THEN BucketOrder(es, i + 1, acc)
                           ELSE BucketOrder(es, i + 1, Append(acc, Len(es[i].cl)))
RECURSIVE Flat(_, _, _, _)
Flat(es, b, k, acc) == IF k > Len(b) THEN acc ELSE Flat(es, b, k + 1, acc \o SelectSeq(es, LAMBDA e : Len(e.cl) = b[k]))
Entries(ps) == LET d == Dedupe(ps, 1, << >>) IN Flat(d, BucketOrder(d, 1, << >>), 1, << >>)
NumBuckets(es) == Len(BucketOrder(es, 1, << >>))
BucketSize(es, e) == Len(SelectSeq(es, LAMBDA x : Len(x.cl) = Len(e.cl)))

\* ------------------------------------------------------------------ matching one node (PathMatches / MatchesNode / MatchesPath)
PatMatch(cl, n) == Len(cl) = Len(n) /\ \A i \in 1..Len(cl) : ClMatch(cl[i], n[i])
FilterOK(f, w) == f = 0 \/ w = f
EntryMatches(T, e, n) == PatMatch(e.cl, n) /\ FilterOK(e.f, T[n])
MatchesNode(T, es, n) == \E i \in 1..Len(es) : EntryMatches(T, es[i], n)

\* ------------------------------------------------------------------ the walk
Children(T, n) == SelectSeq([i \in 1..Len(KidNames(Len(n))) |-> Append(n, KidNames(Len(n))[i])], LAMBDA ch : ch \in DOMAIN T)
CallbackRet(mode, n) == IF mode = "skip" THEN 2 ELSE IF mode = "stop" THEN 0 ELSE Len(n)
MustUnwind(nd, child) == IF "F24" \in Deviations THEN nd < Len(child) - 1 ELSE nd < Len(child)

RECURSIVE Aux(_, _, _, _), Check(_, _, _, _, _, _)
\* DoTraversalAux(node): [vis = nodes the callback was called on, in order; unw = a CheckChildForTraversal said "unwind"; d = the value returned]
Aux(T, es, mode, node) ==
  LET depth == Len(node)
      live  == SelectSeq(es, LAMBDA e : Len(e.cl) > depth)                     \* "if (iter.GetKey() <= relativeDepth) continue"
      wild  == IF "FastPathFirstEntry" \in Deviations THEN Len(live) > 0 /\ Kind(live[1].cl[depth + 1]) = "W"
               ELSE \E i \in 1..Len(live) : Kind(live[i].cl[depth + 1]) = "W"
  IN IF wild
     THEN \* general case: iterate over all children
          LET kids == Children(T, node)
              RECURSIVE loop(_, _)
              loop(i, vis) == IF i > Len(kids) THEN [vis |-> vis, unw |-> FALSE, d |-> depth]
                              ELSE LET r == Check(T, es, mode, kids[i], 0, depth)
                                   IN IF r.unw THEN [vis |-> vis \o r.vis, unw |-> TRUE, d |-> r.d]
                                      ELSE loop(i + 1, vis \o r.vis)
          IN loop(1, << >>)
     ELSE \* optimized case: one hash lookup per literal of every entry, entry by entry; alreadyDid
          LET RECURSIVE eloop(_, _, _, _), lloop(_, _, _, _, _)
              lloop(ei, lits, k, vis, did) ==
                 IF k > Len(lits) THEN [vis |-> vis, unw |-> FALSE, d |-> depth, did |-> did]
                 ELSE LET ch == Append(node, lits[k])
                      IN IF ch \in DOMAIN T /\ (ch \notin did \/ "NoAlreadyDid" \in Deviations)
                         THEN LET r == Check(T, es, mode, ch, ei, depth)
                              IN IF r.unw THEN [vis |-> vis \o r.vis, unw |-> TRUE, d |-> r.d, did |-> did]
                                 ELSE lloop(ei, lits, k + 1, vis \o r.vis, did \cup {ch})
                         ELSE lloop(ei, lits, k + 1, vis, did)
              \* (wrong variant "ScratchPerBucket": the scratch string of the list scanner is cleared per depth bucket, not per entry, so the last
              \* item of an earlier list of the bucket is glued in front of the first item of the next list: that lookup finds nothing)
              eloop(ei, vis, did, left) ==
                 IF ei > Len(live) THEN [vis |-> vis, unw |-> FALSE, d |-> depth]
                 ELSE LET t    == live[ei].cl[depth + 1]
                          lf   == left /\ ei > 1 /\ Len(live[ei - 1].cl) = Len(live[ei].cl)
                          lits == IF "ScratchPerBucket" \in Deviations /\ lf /\ Kind(t) = "L" THEN Tail(Lits(t)) ELSE Lits(t)
                          r    == lloop(ei, lits, 1, vis, did)
                      IN IF r.unw THEN [vis |-> r.vis, unw |-> TRUE, d |-> r.d]
                         ELSE eloop(ei + 1, r.vis, r.did, Kind(t) = "L" \/ lf)
          IN eloop(1, << >>, {}, FALSE)

\* CheckChildForTraversal(child, optKnownMatchingEntryIdx = knownIdx (0 = none)); depth = depth of the parent
\* (the two "break" statements of the code leave the inner loop when matched and recursed are both set: nothing can happen afterwards)
Check(T, es, mode, child, knownIdx, depth) ==
  LET live == SelectSeq(es, LAMBDA e : Len(e.cl) > depth)
      RECURSIVE loop(_, _, _, _)
      loop(i, vis, matched, recursed) ==
        IF i > Len(live) THEN [vis |-> vis, unw |-> FALSE, d |-> depth]
        ELSE LET e == live[i]
                 hit == (i = knownIdx) \/ ClMatch(e.cl[depth + 1], child[depth + 1])
             IN IF ~hit THEN loop(i + 1, vis, matched, recursed)
                ELSE IF Len(e.cl) = depth + 1
                     THEN \* last clause of the path: the callback, once per node, behind the "conspiracy" guard
                          IF matched THEN loop(i + 1, vis, matched, recursed)
                          ELSE LET simple == /\ NumBuckets(es) = 1
                                             /\ ("F2" \in Deviations \/ BucketSize(es, e) = 1)
                                             /\ e.f = 0
                               IN IF simple \/ MatchesNode(T, es, child)
                                  THEN LET nd == CallbackRet(mode, child)
                                       IN IF MustUnwind(nd, child) THEN [vis |-> Append(vis, child), unw |-> TRUE, d |-> nd]
                                          ELSE loop(i + 1, Append(vis, child), TRUE, recursed)
                                  ELSE loop(i + 1, vis, matched, recursed)
                     ELSE \* a non-terminal clause: descend, once per node
                          IF recursed THEN loop(i + 1, vis, matched, recursed)
                          ELSE LET r == Aux(T, es, mode, child)
                               IN IF MustUnwind(r.d, child) THEN [vis |-> vis \o r.vis, unw |-> TRUE, d |-> r.d]
                                  ELSE loop(i + 1, vis \o r.vis, matched, TRUE)
  IN loop(1, << >>, FALSE, FALSE)

Walk(k)  == Aux(k.tree, Entries(k.pats), k.mode, << >>)
Visit(k) == Walk(k).vis                                                         \* DoTraversal's callbacks, in order (its return value is Len(Visit))
Range(s) == {s[i] : i \in 1..Len(s)}
\* the set obtained by testing every node's full path against the patterns one by one
Brute(k) == LET es == Entries(k.pats) IN {n \in DOMAIN k.tree : Len(n) >= 1 /\ MatchesNode(k.tree, es, n)}
SessOf(n) == n[2]
Times(s, x) == Cardinality({i \in 1..Len(s) : s[i] = x})

\* ------------------------------------------------------------------ the property, as predicates over (case, visit list)
\* callback "continue normally": the visited set is the brute-force set, nothing visited twice
ExactOn(k, v) == Range(v) = Brute(k) /\ Len(v) = Cardinality(Range(v))
\* F25 (open): a key that addresses the session node itself together with a deeper key matching a node of the same session
F25Sess(k, s) == /\ <<HostN, s>> \in Brute(k)
                 /\ \E n \in Brute(k) : Len(n) > 2 /\ SessOf(n) = s
\* callback "resume at the next session" (routing): exactly one callback per session that owns a selected node (a visit of a host
\* node, depth 1, selects nobody; the session node itself, depth 2, selects its session)
RouteOn(k, v) ==
  LET sv == SelectSeq(v, LAMBDA n : Len(n) >= 2)
      ss == [i \in 1..Len(sv) |-> SessOf(sv[i])]
  IN /\ Range(ss) = {SessOf(n) : n \in {m \in Brute(k) : Len(m) >= 2}}
     /\ Range(v) \subseteq Brute(k)
     /\ \A s \in Range(ss) : \/ Times(ss, s) = 1
                             \/ "F25" \in Deviations /\ F25Sess(k, s) /\ Times(ss, s) = 2
\* callback "terminate": exactly one callback if anything matches at all
StopOn(k, v) == IF Brute(k) = {} THEN v = << >> ELSE Len(v) = 1 /\ v[1] \in Brute(k)
PropOn(k, v) == CASE k.mode = "all" -> ExactOn(k, v) [] k.mode = "skip" -> RouteOn(k, v) [] k.mode = "stop" -> StopOn(k, v)

TraversalExact == c.mode = "all"  => ExactOn(c, Visit(c))
RouteOnce      == c.mode = "skip" => RouteOn(c, Visit(c))
StopOnce       == c.mode = "stop" => StopOn(c, Visit(c))

\* ------------------------------------------------------------------ the bounded spaces (the harness enumerates the same ones: harness/route.cpp "trav")
\* a session's subtree: code = 5 * K("a") + K("b"); K(x): 0 x absent, 1 x without children, 2 x/a, 3 x/b, 4 x/a and x/b
KidSet(k) == CASE k = 2 -> {"a"} [] k = 3 -> {SecondName} [] k = 4 -> {"a", SecondName} [] OTHER -> {}
Sub(s, x, k) == IF k = 0 THEN {} ELSE {<<HostN, s, x>>} \cup {<<HostN, s, x, y>> : y \in KidSet(k)}
NodesOf(codes) == {<< >>, <<HostN>>} \cup {<<HostN, SessN[i]>> : i \in 1..3}
                  \cup UNION {Sub(SessN[i], "a", codes[i] \div 5) \cup Sub(SessN[i], SecondName, codes[i] % 5) : i \in 1..3}
SessIdx(s) == CASE s = "0" -> 0 [] s = "1" -> 1 [] s = "2" -> 2 [] s = "3" -> 3
NumB(n) == Cardinality({i \in 3..Len(n) : n[i] = "b"})
WhatOf(n, dv) == IF Len(n) <= 2 THEN 0 ELSE 1 + ((NumB(n) + SessIdx(n[2]) + dv) % 2)      \* the what-code the harness gives the node
TreeOf(codes, dv) == [n \in NodesOf(codes) |-> WhatOf(n, dv)]

\* the pattern menu, as clause sequences from the root (the harness has the same list; TraversalTrace compares)
U8 == <<"a", "b", "\\a", "*", "?", "(a|c)", "b,a", "~a">>
C5 == <<"a", "b", "*", "b,a", "~a">>
D3 == <<"a", "*", "b,\\a">>                     \* (a list with an escaped item: the escape branch of the list scanner in DoTraversalAux)
Menu == << <<"*">>, <<"h">>,
           <<"*", "*">>, <<"*", "0">>, <<"h", "1,0">>, <<"*", "<0-1>">> >>
        \o [i \in 1..8 |-> <<"*", "*", U8[i]>>]
        \o << <<"*", "0", "a">>, <<"*", "0", "*">>, <<"*", "1,0", "b,a">>, <<"h", "*", "b">>, <<"h", "<0-1>", "?">>, <<"*", "~0", "a">> >>
        \o [i \in 1..15 |-> <<"*", "*", C5[((i - 1) \div 3) + 1], D3[((i - 1) % 3) + 1]>>]
        \o << <<"*", "*", "\\a", "b">>, <<"*", "*", "?", "?">>, <<"*", "0", "a", "*">>, <<"*", "0", "*", "b">>,
              <<"h", "1,0", "a", "a">>, <<"*", "<0-1>", "(a|c)", "a">>, <<"*", "*", "a", "(a|c)">> >>
        \* 43..47: comma lists of literals with different items, so that several patterns of ONE depth are all-literal lists at one level
        \o << <<"*", "2,1">>, <<"*", "*", "a,c">>, <<"*", "*", "b,c">>, <<"*", "*", "a", "a,c">>, <<"*", "*", "a", "b,c">> >>
        \* 48..52: an escaped backslash in front of a real wildcard / of a list comma
        \o << <<"*", "*", "a\\\\*">>, <<"*", "*", "x\\\\,a">>, <<"*", "*", "a\\\\">>, <<"*", "*", "a", "a\\\\*">>, <<"*", "0", "a\\\\*">> >>
CoreMenu == <<1, 3, 4, 7, 9, 10, 13, 16, 21, 23, 27, 29, 32>>
BsMenu == <<48, 49, 50, 7, 51, 52>>
ListMenu == <<5, 43, 44, 45, 13, 46, 47>>            \* every pattern has a list clause; sequences of 1-3 of them, each item of a list naming (at most) another session's node
Seq25 == [i \in 1..25 |-> i - 1]
U == CASE UNIVERSE = "core" -> [codes |-> <<Seq25, <<0, 1, 5, 6>>, <<0>>>>, menu |-> CoreMenu, maxp |-> 2]
       [] UNIVERSE = "full" -> [codes |-> <<Seq25, Seq25, <<0>>>>, menu |-> [i \in 1..Len(Menu) |-> i], maxp |-> 2]
       [] UNIVERSE = "lists" -> [codes |-> <<<<5, 21>>, <<1, 21>>, <<1, 5>>>>, menu |-> ListMenu, maxp |-> 3]
       [] UNIVERSE = "bs"    -> [codes |-> <<<<1, 6, 21>>, <<0, 6>>, <<0>>>>, menu |-> BsMenu, maxp |-> 2]
       [] UNIVERSE = "tri"  -> [codes |-> <<Seq25, <<0, 1, 5, 6>>, <<0, 1, 5, 6>>>>, menu |-> CoreMenu, maxp |-> 3]
       [] OTHER -> [codes |-> <<<<0>>, <<0>>, <<0>>>>, menu |-> <<1>>, maxp |-> 0]
NM == Len(U.menu)
NSeq == IF U.maxp = 0 THEN 0 ELSE IF U.maxp = 1 THEN NM ELSE IF U.maxp = 2 THEN NM + NM * NM ELSE NM + NM * NM + NM * NM * NM
NTree == Len(U.codes[1]) * Len(U.codes[2]) * Len(U.codes[3])
Total == 3 * NSeq * NTree
ModeOf(i) == <<"all", "skip", "stop">>[i + 1]
Pat(m) == [abs |-> TRUE, cl |-> Menu[U.menu[m + 1]], f |-> 0]
\* pattern sequence number q: the one-pattern sequences first, then the pairs, then the triples
SeqOf(q) == IF q < NM THEN <<Pat(q)>>
            ELSE IF q < NM + NM * NM THEN LET r == q - NM IN <<Pat(r \div NM), Pat(r % NM)>>
            ELSE LET r == q - NM - NM * NM IN <<Pat(r \div (NM * NM)), Pat((r \div NM) % NM), Pat(r % NM)>>
\* case number idx: mode fastest, then the pattern sequence, then the trees of sessions 0, 1, 2
CaseOf(idx) == LET m  == idx % 3
                   q  == (idx \div 3) % NSeq
                   t  == idx \div (3 * NSeq)
                   n1 == Len(U.codes[1])
                   n2 == Len(U.codes[2])
                   codes == <<U.codes[1][(t % n1) + 1], U.codes[2][((t \div n1) % n2) + 1], U.codes[3][(t \div (n1 * n2)) + 1]>>
               IN [tree |-> TreeOf(codes, 0), pats |-> SeqOf(q), mode |-> ModeOf(m)]

Init == /\ Total > SHARD
        /\ \E j \in 0..((Total - 1 - SHARD) \div NSHARDS) : c = CaseOf(SHARD + NSHARDS * j)
Next == UNCHANGED c
Spec == Init /\ [][Next]_c

\* vacuity counters (one TLC worker): 1 cases, 2 with a non-empty brute-force set, 3 with more than one visit, 4 inside F25's predicate,
\* 5 where some level used the hash-lookup path, 6 with two entries in one depth bucket
UsesLookup(k) == LET es == Entries(k.pats) IN
                 \E d \in 0..3 : LET live == SelectSeq(es, LAMBDA e : Len(e.cl) > d) IN Len(live) > 0 /\ \A i \in 1..Len(live) : Kind(live[i].cl[d + 1]) # "W"
Bump(r) == TLCSet(r, TLCGet(r) + 1)
Count == /\ Bump(1)
         /\ (Brute(c) # {} => Bump(2))
         /\ (Len(Visit(c)) > 1 => Bump(3))
         /\ ((c.mode = "skip" /\ \E s \in Range(SessN) : F25Sess(c, s)) => Bump(4))
         /\ (UsesLookup(c) => Bump(5))
         /\ (LET es == Entries(c.pats) IN (\E i \in 1..Len(es) : BucketSize(es, es[i]) > 1) => Bump(6))
ZeroRegs == \A k \in 1..6 : TLCSet(k, 0)
ASSUME ZeroRegs
Summary == PrintT("@@" \o ToJson([summary |-> TRUE, cases |-> TLCGet(1), nonempty |-> TLCGet(2), multi |-> TLCGet(3), f25 |-> TLCGet(4), lookup |-> TLCGet(5), samedepth |-> TLCGet(6), total |-> Total]))
=============================================================================
