------------------------------- MODULE Route -------------------------------
(***************************************************************************)
(* C05 - routing of client-to-client Messages by StorageReflectSession       *)
(* (MessageReceivedFromGateway, default branch; PassMessageCallback;         *)
(* DumbReflectSession broadcast; SETPARAMETERS / REMOVEPARAMETERS for the     *)
(* reflect-to-self flag and the default route).                              *)
(*                                                                           *)
(* Send is implementation-shaped: the receivers are the sessions the         *)
(* skip-to-next-session walk of Traversal.tla calls back, one copy per       *)
(* callback.  The PROPERTY is stated next to it, from the brute-force        *)
(* definition only (Want): delivered-to set = sessions owning >= 1 node that *)
(* some key matches (filter applied) or addressed by a session-node key,     *)
(* minus the sender unless reflect-to-self; without keys the sender's        *)
(* default route, else broadcast to all other sessions; one copy each        *)
(* (RouteExact); per (sender, receiver) order (PairFIFO); the sender-        *)
(* identity field names the true sender (SenderTrue).                        *)
(*                                                                           *)
(* pairq[s][r] is the sequence of copies routed from s to r that r has not   *)
(* been seen to receive yet (model checking: all of them, nothing is         *)
(* consumed; RouteTrace.tla consumes them with the Messages the real clients  *)
(* received).                                                                *)
(*                                                                           *)
(* Deviations (besides those of Traversal.tla):                              *)
(*   "F23" SETPARAMETERS moves the keys away: the default route never applies*)
(*         (repaired in /repo; the reverse patch must violate RouteExact)     *)
(*   "ReflectInverted", "KeepForged", "HeadQueue", "FirstKeyFilter"           *)
(*         deliberately wrong variants (each invariant can fail)              *)
(***************************************************************************)
EXTENDS Traversal

CONSTANTS N,         \* connected sessions: SessN[1..N]
          Senders,   \* the sessions that issue commands
          KeyMenu,   \* the key sequences a Send may carry (<< >> = a Message without keys)
          DefMenu,   \* the key sequences a default route may be set to
          SetMenu,   \* the [s, path, w] a SETDATA may carry (path relative to the session node)
          RmMenu,    \* the [s, name] a REMOVEDATA may carry (a first-level node name: the subtree goes)
          Forges,    \* what the sender puts into the sender-identity field: "none" (no field), "nonstr" (an int32 field), else a string
          MaxSends, MaxOps,
          RECORD     \* TRUE: last describes the step (behaviours for the replay are read from the state graph)

VARIABLES conn,      \* the connected sessions
          tree,      \* the server's node tree: path -> what-code
          refl,      \* [session -> reflect-to-self]
          defr,      \* [session -> keys of the default route, << >> = none]
          pairq,     \* [sender -> [receiver -> sequence of [n, sid, opt]]]
          nsent, nops,
          chk,       \* what the last Send did against what the property wants: [copies, want, f25]
          last
rvars == <<c, conn, tree, refl, defr, pairq, nsent, nops, chk, last>>

S(n) == {SessN[k] : k \in 1..n}
BaseTree(n) == [p \in {<< >>, <<HostN>>} \cup {<<HostN, s>> : s \in S(n)} |-> 0]
NoCase == [tree |-> BaseTree(0), pats |-> << >>, mode |-> "skip"]
NoChk(ss) == [copies |-> [r \in ss |-> 0], want |-> {}, f25 |-> {}]
Rec(r) == IF RECORD THEN r ELSE [a |-> "-"]

InitWith(n) == /\ conn = S(n) /\ tree = BaseTree(n)
               /\ refl = [s \in S(n) |-> FALSE] /\ defr = [s \in S(n) |-> << >>]
               /\ pairq = [s \in S(n) |-> [r \in S(n) |-> << >>]]
               /\ nsent = 0 /\ nops = 0 /\ chk = NoChk(S(n)) /\ c = NoCase
RInit == InitWith(N) /\ last = [a |-> "Init"]

\* ------------------------------------------------------------------ the tree commands (their own correctness is C04 / C13)
Full(s, path) == <<HostN, s>> \o path
DoSet(s, path, w) ==
  LET full == Full(s, path)
      anc  == {Full(s, SubSeq(path, 1, k)) : k \in 1..(Len(path) - 1)} \ DOMAIN tree      \* missing ancestors are created with an empty Message
  IN /\ s \in conn /\ Len(path) \in 1..2
     /\ tree' = [n \in DOMAIN tree \cup anc \cup {full} |-> IF n = full THEN w ELSE IF n \in DOMAIN tree THEN tree[n] ELSE 0]
DoRm(s, name) ==
  /\ s \in conn
  /\ tree' = [n \in {m \in DOMAIN tree : ~(Len(m) >= 3 /\ m[2] = s /\ m[3] = name)} |-> tree[n]]

\* ------------------------------------------------------------------ routing
Eff(s, keys) == IF keys # << >> THEN keys ELSE IF "F23" \in Deviations THEN << >> ELSE defr[s]      \* << >>: broadcast
Reflects(s) == IF "ReflectInverted" \in Deviations THEN ~refl[s] ELSE refl[s]
WalkKeys(eff) == IF "FirstKeyFilter" \in Deviations THEN [k \in 1..Len(eff) |-> [eff[k] EXCEPT !.f = eff[1].f]] ELSE eff
CaseFor(T, eff) == [tree |-> T, pats |-> eff, mode |-> "skip"]
SessVisits(k) == LET v == SelectSeq(Visit(k), LAMBDA n : Len(n) >= 2) IN [j \in 1..Len(v) |-> SessOf(v[j])]
\* as coded: one copy per callback of the walk (PassMessageCallback), or one per session for a broadcast
ImplCopies(s, eff, r) == IF ~(r # s \/ Reflects(s)) THEN 0
                         ELSE IF eff = << >> THEN 1
                         ELSE Times(SessVisits(CaseFor(tree, WalkKeys(eff))), r)
\* the property: who is to get the Message (exactly once)
Selected(T, eff) == {SessOf(n) : n \in {m \in Brute(CaseFor(T, eff)) : Len(m) >= 2}}
Want(s, eff, r) == (r # s \/ refl[s]) /\ (eff = << >> \/ r \in Selected(tree, eff))
WantEff(s, keys) == IF keys # << >> THEN keys ELSE defr[s]
F25Hit(eff, r) == eff # << >> /\ F25Sess(CaseFor(tree, eff), r)

SidOf(s, forge) == IF forge \in {"none", "nonstr"} THEN forge ELSE IF "KeepForged" \in Deviations THEN forge ELSE s
Copies(m, k) == [j \in 1..k |-> m]
Enqueue(q, ms) == IF "HeadQueue" \in Deviations /\ q # << >> THEN ms \o q ELSE q \o ms

DoSend(s, keys, forge) ==
  LET eff == Eff(s, keys)
      m   == [n |-> nsent + 1, sid |-> SidOf(s, forge), opt |-> FALSE]
      cp  == [r \in conn |-> ImplCopies(s, eff, r)]
  IN /\ s \in conn
     /\ pairq' = [pairq EXCEPT ![s] = [r \in conn |-> Enqueue(pairq[s][r], Copies(m, cp[r]))]]
     /\ nsent' = nsent + 1
     /\ c' = IF eff = << >> THEN c ELSE CaseFor(tree, eff)
     /\ chk' = [copies |-> cp, want |-> {r \in conn : Want(s, WantEff(s, keys), r)}, f25 |-> {r \in conn : F25Hit(WantEff(s, keys), r)}]

\* ------------------------------------------------------------------ the model-checked instance
Busy == nops < MaxOps
Set(s) == \E x \in SetMenu : /\ Busy /\ x.s = s /\ DoSet(s, x.path, x.w) /\ nops' = nops + 1 /\ chk' = NoChk(conn)
                             /\ last' = Rec([a |-> "Set", s |-> s, path |-> x.path, w |-> x.w])
                             /\ UNCHANGED <<c, conn, refl, defr, pairq, nsent>>
Rm(s) == \E x \in RmMenu : /\ Busy /\ x.s = s /\ <<HostN, s, x.name>> \in DOMAIN tree /\ DoRm(s, x.name) /\ nops' = nops + 1 /\ chk' = NoChk(conn)
                           /\ last' = Rec([a |-> "Rm", s |-> s, name |-> x.name])
                           /\ UNCHANGED <<c, conn, refl, defr, pairq, nsent>>
Refl(s) == /\ Busy /\ refl' = [refl EXCEPT ![s] = ~@] /\ nops' = nops + 1 /\ chk' = NoChk(conn)
           /\ last' = Rec([a |-> "Refl", s |-> s, on |-> ~refl[s]])
           /\ UNCHANGED <<c, conn, tree, defr, pairq, nsent>>
Def(s) == \E k \in 1..Len(DefMenu) : /\ Busy /\ defr[s] # DefMenu[k] /\ defr' = [defr EXCEPT ![s] = DefMenu[k]] /\ nops' = nops + 1 /\ chk' = NoChk(conn)
                                     /\ last' = Rec([a |-> "Def", s |-> s, keys |-> DefMenu[k]])
                                     /\ UNCHANGED <<c, conn, tree, refl, pairq, nsent>>
DefClear(s) == /\ Busy /\ defr[s] # << >> /\ defr' = [defr EXCEPT ![s] = << >>] /\ nops' = nops + 1 /\ chk' = NoChk(conn)
               /\ last' = Rec([a |-> "DefClear", s |-> s])
               /\ UNCHANGED <<c, conn, tree, refl, pairq, nsent>>
Send(s) == \E k \in 1..Len(KeyMenu), fg \in Forges :
              /\ nsent < MaxSends /\ DoSend(s, KeyMenu[k], fg)
              /\ last' = Rec([a |-> "Send", s |-> s, n |-> nsent + 1, keys |-> KeyMenu[k], forge |-> fg])
              /\ UNCHANGED <<conn, tree, refl, defr, nops>>
ASet == \E s \in conn : Set(s)
ARm == \E s \in conn : Rm(s)
ARefl == \E s \in Senders : Refl(s)
ADef == \E s \in Senders : Def(s)
ADefClear == \E s \in Senders : DefClear(s)
ASend == \E s \in Senders : Send(s)
RNext == ASet \/ ARm \/ ARefl \/ ADef \/ ADefClear \/ ASend
RSpec == RInit /\ [][RNext]_rvars

\* ------------------------------------------------------------------ the property
\* exactly the selected sessions, one copy each (F25, open: two copies for a session addressed by a session-node key and a deeper key)
RouteExact == \A r \in conn : \/ chk.copies[r] = (IF r \in chk.want THEN 1 ELSE 0)
                              \/ "F25" \in Deviations /\ r \in chk.f25 /\ r \in chk.want /\ chk.copies[r] = 2
\* per (sender, receiver): in the order sent
PairFIFO == \A s \in conn, r \in conn : \A x, y \in 1..Len(pairq[s][r]) : x < y => pairq[s][r][x].n <= pairq[s][r][y].n
\* the sender-identity field, if the Message has one as a string, names the true sender
SenderTrue == \A s \in conn, r \in conn : \A x \in 1..Len(pairq[s][r]) : pairq[s][r][x].sid \in {"none", "nonstr", s}
RTypeOK == /\ conn = S(N) /\ nsent \in 0..MaxSends /\ nops \in 0..MaxOps
           /\ \A n \in DOMAIN tree : Len(n) >= 1 => SubSeq(n, 1, Len(n) - 1) \in DOMAIN tree
=============================================================================
