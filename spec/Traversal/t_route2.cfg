SPECIFICATION RSpec
CONSTANTS
  Deviations = {"F25"}
  UNIVERSE = "none"
  SHARD = 0
  NSHARDS = 1
  N = 3
  Senders = {"0", "1"}
  KeyMenu <- KM_full
  DefMenu <- DM_full
  SetMenu <- SM_full
  RmMenu <- RM_full
  Forges = {"none", "1", "nonstr"}
  MaxSends = 1
  MaxOps = 2
  RECORD = FALSE
INVARIANTS RTypeOK RouteExact PairFIFO SenderTrue
