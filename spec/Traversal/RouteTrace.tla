----------------------------- MODULE RouteTrace -----------------------------
(***************************************************************************)
(* Trace validation for C05 (routing): harness/route.cpp "hist" / "replay"   *)
(* drove a real in-process ReflectServer with real client gateways and       *)
(* logged every command it sent and every client-to-client Message a client  *)
(* received; the log is validated against the PROPERTY of Route.tla: a Send   *)
(* line queues, for every session the brute-force definition selects (Want),  *)
(* one expected copy; a Recv line must be the oldest expected copy of its     *)
(* (sender, receiver) pair, with the sender-identity field the specification  *)
(* gives; at a Quiesce line (the harness pumped until nothing moved) nothing   *)
(* expected may be outstanding.  An extra copy, a copy for an unselected      *)
(* session, a lost copy, a copy out of order or with a wrong identity field   *)
(* leave the trace without a successor: NotAccepted then holds to the end.    *)
(* F25 (open): where its predicate holds a second copy is tolerated           *)
(* (an optional queue entry) while "F25" is in Deviations.                    *)
(* Histories are concatenated with {"e":"Reset","n":sessions} lines.          *)
(* Line 1 is a header with the clause table of the real StringMatcher.        *)
(***************************************************************************)
EXTENDS RouteMC, IOUtils

VARIABLE l
Log == ndJsonDeserialize(IOEnv.TRACE)
Len0 == Len(Log)
Ln == Log[l]
Is(e) == l <= Len0 /\ Ln.e = e
Step == l' = l + 1 /\ last' = last

TraceInit == /\ l = 2 /\ conn = {} /\ tree = BaseTree(0) /\ refl = << >> /\ defr = << >> /\ pairq = << >>
             /\ nsent = 0 /\ nops = 0 /\ chk = NoChk({}) /\ c = NoCase /\ last = [a |-> "Init"]

AllEmpty == \A s \in conn, r \in conn : pairq[s][r] = << >>
TReset == /\ Is("Reset") /\ AllEmpty
          /\ conn' = S(Ln.n) /\ tree' = BaseTree(Ln.n)
          /\ refl' = [s \in S(Ln.n) |-> FALSE] /\ defr' = [s \in S(Ln.n) |-> << >>]
          /\ pairq' = [s \in S(Ln.n) |-> [r \in S(Ln.n) |-> << >>]]
          /\ nsent' = 0 /\ nops' = 0 /\ chk' = NoChk(S(Ln.n)) /\ c' = NoCase /\ Step
TSet == /\ Is("Set") /\ DoSet(Ln.s, Ln.path, Ln.w) /\ UNCHANGED <<c, conn, refl, defr, pairq, nsent, nops, chk>> /\ Step
TRm == /\ Is("Rm") /\ DoRm(Ln.s, Ln.name) /\ UNCHANGED <<c, conn, refl, defr, pairq, nsent, nops, chk>> /\ Step
TRefl == /\ Is("Refl") /\ Ln.s \in conn /\ refl' = [refl EXCEPT ![Ln.s] = Ln.on] /\ UNCHANGED <<c, conn, tree, defr, pairq, nsent, nops, chk>> /\ Step
TDef == /\ Is("Def") /\ Ln.s \in conn /\ Ln.keys # << >> /\ defr' = [defr EXCEPT ![Ln.s] = Ln.keys] /\ UNCHANGED <<c, conn, tree, refl, pairq, nsent, nops, chk>> /\ Step
TDefClear == /\ Is("DefClear") /\ Ln.s \in conn /\ defr' = [defr EXCEPT ![Ln.s] = << >>] /\ UNCHANGED <<c, conn, tree, refl, pairq, nsent, nops, chk>> /\ Step

\* what the property expects of this Message: one copy for every wanted session (plus, F25, a tolerated second one)
TSend == /\ Is("Send") /\ Ln.s \in conn /\ Ln.n = nsent + 1
         /\ LET s   == Ln.s
                eff == WantEff(s, Ln.keys)
                sid == IF Ln.forge \in {"none", "nonstr"} THEN Ln.forge ELSE s
                m   == [n |-> Ln.n, sid |-> sid, opt |-> FALSE]
                exp(r) == IF ~Want(s, eff, r) THEN << >>
                          ELSE IF "F25" \in Deviations /\ F25Hit(eff, r) THEN <<m, [m EXCEPT !.opt = TRUE]>> ELSE <<m>>
            IN pairq' = [pairq EXCEPT ![s] = [r \in conn |-> pairq[s][r] \o exp(r)]]
         /\ nsent' = nsent + 1
         /\ UNCHANGED <<c, conn, tree, refl, defr, nops, chk>> /\ Step
\* a tolerated second copy that did not come is skipped when the next Message of the pair arrives
Skip(q, n) == IF q # << >> /\ Head(q).opt /\ Head(q).n # n THEN Tail(q) ELSE q
\* "if the delivered Message has a string field of that name, it names the sender": a field the library would add, or a non-string field
\* of that name that it would replace, would satisfy the property as well (the documentation is silent: either)
SidOK(want, got, from) == got = want \/ (want \in {"none", "nonstr"} /\ got = from)
TRecv == /\ Is("Recv") /\ Ln.r \in conn /\ Ln.from \in conn
         /\ LET q == Skip(pairq[Ln.from][Ln.r], Ln.n)
            IN /\ q # << >> /\ Head(q).n = Ln.n /\ SidOK(Head(q).sid, Ln.sid, Ln.from)
               /\ pairq' = [pairq EXCEPT ![Ln.from][Ln.r] = Tail(q)]
         /\ UNCHANGED <<c, conn, tree, refl, defr, nsent, nops, chk>> /\ Step
TQuiesce == /\ Is("Quiesce")
            /\ \A s \in conn, r \in conn : \A x \in 1..Len(pairq[s][r]) : pairq[s][r][x].opt
            /\ pairq' = [s \in conn |-> [r \in conn |-> << >>]]
            /\ UNCHANGED <<c, conn, tree, refl, defr, nsent, nops, chk>> /\ Step

TraceNext == TReset \/ TSet \/ TRm \/ TRefl \/ TDef \/ TDefClear \/ TSend \/ TRecv \/ TQuiesce
TraceSpec == TraceInit /\ [][TraceNext]_<<rvars, l>>

\* "violated" = every line of the log was explained
NotAccepted == l <= Len0
\* the real StringMatcher agrees with the clause table (four sessions at most)
HdrOK == TableAgrees(Log[1].table, Log[1].nsess)
\* progress register for diagnosing a rejection (one worker)
Track == TLCSet(11, IF TLCGet(11) > l THEN TLCGet(11) ELSE l)
ZeroR == TLCSet(11, 0)
ASSUME ZeroR
Report == PrintT("@@" \o ToJson([summary |-> TRUE, maxline |-> TLCGet(11), lines |-> Len0, table_ok |-> HdrOK]))
=============================================================================
