------------------------------- MODULE QFLaws -------------------------------
(***************************************************************************************************************)
(* C14 - laws of the oracle, model-checked by TLC so that QueryFilter.tla is not vacuous and its parts agree     *)
(* with each other.  The state is one (filter tree, Message) pair; the actions are the constructors of filter   *)
(* trees (wrap the current tree into a combinator / a Message filter, up to MaxDepth), so the reachable states  *)
(* are all trees over LeafMenu x Partners x combinators, each paired with every Message of MsgMenu.             *)
(***************************************************************************************************************)
EXTENDS QFParse

CONSTANTS MaxDepth,     \* depth of the trees (leaf = 0)
          Size          \* "deep": every combinator at every level and the larger menus (thorough tier); "quick"; "tiny": a handful of
                        \* leaves and Messages (the run that measures action coverage)
Deep == Size = "deep"
Tiny == Size = "tiny"

VARIABLES f, m
vars == <<f, m>>

Raw(fn, idx, op, ty, val, hd, d) == [k |-> "raw", fn |-> fn, idx |-> idx, op |-> op, ty |-> ty, val |-> val, hd |-> hd, d |-> IF hd THEN d ELSE <<>>]
MsgF(fn, idx, kids, dm) == [k |-> "msg", fn |-> fn, idx |-> idx, kids |-> kids, dm |-> dm]
NullF == [k |-> "null"]
Comb(c, kids) == IF c[1] \in {"min", "max"} THEN [k |-> c[1], n |-> c[2], kids |-> kids] ELSE [k |-> c[1], kids |-> kids]

ab == <<97, 98>>
Sub1 == [what |-> 1, fields |-> <<[n |-> "f", t |-> "i32", v |-> <<1>>]>>]
Sub2 == [what |-> 2, fields |-> <<[n |-> "f", t |-> "str", v |-> <<ab>>], [n |-> "g", t |-> "i32", v |-> <<0, 2>>]>>]

LeafCore == {
   [k |-> "what", lo |-> 1, hi |-> 2],
   [k |-> "exists", fn |-> "f", idx |-> 0, ty |-> "any"],
   [k |-> "exists", fn |-> "g", idx |-> 1, ty |-> "i32"],
   Num("i32", "f", 0, 3, 1, 0, 0, FALSE, 0),
   Num("i32", "g", 1, 4, 0, 1, 3, TRUE, 2),
   Num("i8", "f", 1, 5, 0, 4, -1, FALSE, 0),
   Num("dbl", "f", 0, 3, "1", 0, "0", TRUE, "NaN"),
   Num("dbl", "g", 0, 1, "0.5", 0, "0", TRUE, "1"),
   Num("bool", "g", 0, 0, TRUE, 3, TRUE, TRUE, FALSE),
   Str("f", 0, 6, <<97>>, FALSE, <<>>),
   Str("f", 0, 8, <<>>, FALSE, <<>>),
   Str("g", 0, 15, <<65, 66>>, TRUE, ab),
   Str("f", 1, 24, <<97, 42>>, FALSE, <<>>),
   Raw("f", 0, 6, "any", <<1>>, FALSE, <<>>),
   Raw("f", 1, 3, "raw", <<1, 2>>, TRUE, <<1>>),
   MsgF("f", 0, <<>>, <<>>),
   MsgF("f", 0, <<Num("i32", "f", 0, 0, 1, 0, 0, FALSE, 0)>>, <<Sub2>>)
}
LeafMore == {
   [k |-> "what", lo |-> 2, hi |-> 1],
   [k |-> "what", lo |-> 2, hi |-> NoLimit],
   [k |-> "what", lo |-> 0, hi |-> 1],
   [k |-> "exists", fn |-> "f", idx |-> 5, ty |-> "str"],
   Num("i64", "f", 5, 200, 1, 0, 0, TRUE, 1),
   Num("i16", "f", 0, 0, 1, 7, 1, FALSE, 0),
   Num("flt", "f", 0, 4, "-0", 0, "0", FALSE, "0"),
   Num("flt", "f", 0, 1, "2", 2, "1", FALSE, "0"),
   Num("pt", "f", 0, 0, <<1, 2>>, 0, <<0, 0>>, TRUE, <<1, 2>>),
   Num("rect", "f", 0, 2, <<1, 2, 3, 4>>, 0, <<0, 0, 0, 0>>, FALSE, <<0, 0, 0, 0>>),
   Str("f", 0, 3, ab, TRUE, <<>>),
   Str("f", 0, 11, ab, TRUE, <<>>),
   Str("f", 0, 25, <<97>>, FALSE, <<>>),
   Str("f", 0, 26, <<65, 63>>, FALSE, <<>>),
   Str("g", 5, 200, ab, TRUE, ab),
   Raw("f", 0, 0, "raw", <<>>, TRUE, <<1>>),
   Raw("g", 0, 11, "any", <<1, 2, 1>>, TRUE, <<>>),       \* a zero-length assumed default: survives the round trip in the specification (F22 is the code's deviation)
   Raw("f", 0, 12, "raw", <<1>>, FALSE, <<>>),
   MsgF("g", 1, <<>>, <<Sub1>>),
   [k |-> "childcount", ty |-> "i32", fn |-> "", idx |-> 0, op |-> 2, val |-> 0, mop |-> 0, msk |-> 0, hd |-> FALSE, d |-> 0],
   [k |-> "nodename", fn |-> "", idx |-> 0, op |-> 6, val |-> <<97>>, hd |-> FALSE, d |-> <<>>]
}
LeafMenu == IF Tiny THEN {x \in LeafCore : x.k \in {"what", "msg"} \/ (x.k = "str" /\ x.op = 8)}
            ELSE IF Deep THEN LeafCore \cup LeafMore ELSE LeafCore \cup {x \in LeafMore : x.k \in {"what", "raw", "childcount"} \/ (x.k = "num" /\ x.ty \in {"i64", "pt"})}
Partners == {[k |-> "exists", fn |-> "f", idx |-> 0, ty |-> "any"], Str("f", 0, 8, <<>>, FALSE, <<>>), NullF}
            \cup (IF Deep THEN {Num("i32", "g", 0, 1, 1, 0, 0, TRUE, 0)} ELSE {})

Fd(n, t, v) == [n |-> n, t |-> t, v |-> v]
MsgCore == {
   [what |-> 0, fields |-> <<>>],
   [what |-> 1, fields |-> <<Fd("f", "i32", <<1>>), Fd("g", "i32", <<0, 2>>)>>],
   [what |-> 2, fields |-> <<Fd("g", "str", <<ab>>), Fd("f", "str", <<<<97>>, ab>>)>>],
   [what |-> 3, fields |-> <<Fd("f", "raw", <<<<1>>, <<1, 2>>>>), Fd("g", "bool", <<TRUE>>)>>],
   [what |-> 1, fields |-> <<Fd("g", "i32", <<5>>), Fd("f", "msg", <<Sub1>>)>>]
}
MsgMore == {
   [what |-> 2, fields |-> <<Fd("f", "dbl", <<"NaN", "1">>)>>],
   [what |-> 0, fields |-> <<Fd("f", "i8", <<0, 1>>), Fd("g", "raw", <<<<1, 2>>>>)>>],
   [what |-> 1, fields |-> <<Fd("f", "pt", <<<<1, 2>>>>), Fd("g", "rect", <<<<1, 2, 3, 4>>>>)>>],
   [what |-> 1, fields |-> <<Fd("f", "flt", <<"-0">>), Fd("g", "msg", <<Sub2, Sub1>>)>>],
   [what |-> 2, fields |-> <<Fd("f", "str", <<<<>>>>), Fd("g", "i64", <<1>>)>>]
}
MsgMenu == IF Tiny THEN {x \in MsgCore : x.what \in {0, 1}} ELSE IF Deep THEN MsgCore \cup {x \in MsgMore : x.fields[1].t # "str"} ELSE MsgCore \cup {x \in MsgMore : x.what = 2 /\ x.fields[1].t = "dbl"}

PlainKinds == {"and", "or", "nand", "nor", "xor"}
AllCombs == {<<k, 0>> : k \in PlainKinds} \cup {<<k, n>> : k \in {"min", "max"}, n \in {0, 1, 2, NoLimit}}
OuterCombs == IF Deep THEN {<<k, 0>> : k \in PlainKinds} \cup {<<k, n>> : k \in {"min", "max"}, n \in {1, NoLimit}}
              ELSE {<<"nor", 0>>, <<"and", 0>>, <<"xor", 0>>, <<"min", 1>>}    \* for wrapping a tree that is already a combinator

RECURSIVE Depth(_)
MaxOf(S) == IF S = {} THEN 0 ELSE CHOOSE x \in S : \A y \in S : y <= x
Depth(x) == IF IsCombinator(x) \/ x.k = "msg" THEN 1 + MaxOf({Depth(x.kids[i]) : i \in DOMAIN x.kids}) ELSE 0
CombsFor(x) == IF Depth(x) = 0 THEN AllCombs ELSE OuterCombs

\* quick tier: every combinator x {no child, one child, two children with a partner on either side, three children} over the
\* leaves, every such tree wrapped once more in a unary combinator / Message filter; Deep: binary wrapping at the second level too
OuterPartners == {p \in Partners : p.k = "exists"}
Init == f \in LeafMenu /\ m \in MsgMenu
Empty(c)       == Depth(f) = 0 /\ MaxDepth >= 1 /\ f' = Comb(c, <<>>) /\ UNCHANGED m
Wrap1(c)       == Depth(f) < MaxDepth /\ c \in CombsFor(f) /\ f' = Comb(c, <<f>>) /\ UNCHANGED m
Wrap2(c, p, l) == /\ Depth(f) < MaxDepth /\ c \in CombsFor(f)
                  /\ (Depth(f) = 0 \/ (Deep /\ p \in OuterPartners))
                  /\ f' = Comb(c, IF l THEN <<p, f>> ELSE <<f, p>>) /\ UNCHANGED m
Wrap3(c, p)    == Depth(f) = 0 /\ MaxDepth >= 1 /\ f' = Comb(c, <<p, f, f>>) /\ UNCHANGED m
WrapMsg(fn, dm) == /\ Depth(f) < MaxDepth /\ ~HasNull(f)
                   /\ (Depth(f) = 0 \/ Deep \/ (fn = "f" /\ dm = <<>>))
                   /\ f' = MsgF(fn, 0, <<f>>, dm) /\ UNCHANGED m
Next == \/ \E c \in AllCombs : Empty(c) \/ Wrap1(c)
        \/ \E c \in AllCombs, p \in Partners, l \in BOOLEAN : Wrap2(c, p, l)
        \/ \E c \in AllCombs, p \in Partners : Wrap3(c, p)
        \/ \E fn \in {"f", "g"}, dm \in {<<>>, <<Sub1>>} : WrapMsg(fn, dm)
Spec == Init /\ [][Next]_vars

----------------------------------------------------------------------------------------------------------------
(* the laws *)
E(x) == Eval(x, m)
Verdicts == {T, F, Either}
TypeOK == E(f) \in Verdicts

\* an archive can be read back, and gives the same tree up to the spelling of the convenience classes
RoundTrip == FromArchive(Archive(f)) = Canon(f)
\* ... and that tree decides like the original (a NULL child cannot be archived)
RestoredDecidesAlike == HasNull(f) \/ Eval(FromArchive(Archive(f)), m) = E(f)

\* the order of the Message's fields does not matter
RECURSIVE Rev(_)
RevSeq(s) == [i \in DOMAIN s |-> s[Len(s) + 1 - i]]
Rev(x) == [what |-> x.what, fields |-> RevSeq([i \in DOMAIN x.fields |-> IF x.fields[i].t = "msg"
                                                  THEN [x.fields[i] EXCEPT !.v = [j \in DOMAIN x.fields[i].v |-> Rev(x.fields[i].v[j])]] ELSE x.fields[i]])]
FieldOrder == Eval(f, Rev(m)) = E(f)

\* the convenience classes are the threshold classes their constructors say they are
Convenience == CASE f.k = "and"  -> E(f) = E([k |-> "min", n |-> NoLimit, kids |-> f.kids])
                 [] f.k = "or"   -> E(f) = E([k |-> "min", n |-> 0, kids |-> f.kids])
                 [] f.k = "nand" -> E(f) = E([k |-> "max", n |-> NoLimit, kids |-> f.kids])
                 [] f.k = "nor"  -> E(f) = E([k |-> "max", n |-> 0, kids |-> f.kids])
                 [] OTHER -> TRUE
\* min-match and max-match with the same n and the same (non-empty) children are complements, n = number of children means "all"
Complement == (f.k = "min" /\ f.kids # <<>>) => /\ E(f) = Neg(E([f EXCEPT !.k = "max"]))
                                                /\ (f.n = Len(f.kids) => E(f) = E([k |-> "and", kids |-> f.kids]))
\* De Morgan
NotAll(kids) == [i \in DOMAIN kids |-> NotOf(kids[i])]
DeMorgan == (IsCombinator(f) /\ f.kids # <<>>) =>
               CASE f.k = "and"  -> E(f) = Neg(E([k |-> "nand", kids |-> f.kids])) /\ E(f) = E([k |-> "nor", kids |-> NotAll(f.kids)])
                 [] f.k = "or"   -> E(f) = Neg(E([k |-> "nor", kids |-> f.kids]))  /\ E(f) = E([k |-> "nand", kids |-> NotAll(f.kids)])
                 [] f.k = "nand" -> E(f) = E([k |-> "or", kids |-> NotAll(f.kids)])
                 [] f.k = "nor"  -> E(f) = E([k |-> "and", kids |-> NotAll(f.kids)])
                 [] OTHER -> TRUE
\* unary and binary special cases
Small == /\ (f.k \in {"nor", "nand"} /\ Len(f.kids) = 1) => E(f) = Neg(E(f.kids[1]))
         /\ (f.k \in {"and", "or", "xor"} /\ Len(f.kids) = 1) => E(f) = E(f.kids[1])
         /\ (f.k = "xor" /\ Len(f.kids) = 2) => E(f) = {x # y : x \in E(f.kids[1]), y \in E(f.kids[2])}
\* operators: <= is < or ==, >= is > or ==, != is not ==   (where there is a datum or a default to compare)
Avail(x) == x.hd \/ Present(m, x.fn, IF x.k = "str" THEN "str" ELSE x.ty, x.idx)
WithOp(x, op) == [x EXCEPT !.op = op]
Or2(a, b) == {x \/ y : x \in a, y \in b}
OpAlgebra == (f.k \in {"num", "str", "raw"} /\ Avail(f) /\ E(f) # Either /\ (f.k = "raw" => f.val # <<>>)) =>
                CASE f.op = 3 -> E(f) = Or2(E(WithOp(f, 1)), E(WithOp(f, 0)))
                  [] f.op = 4 -> E(f) = Or2(E(WithOp(f, 2)), E(WithOp(f, 0)))
                  [] f.op = 5 -> E(f) = Neg(E(WithOp(f, 0)))
                  [] OTHER -> TRUE
\* an assumed default acts "as if the Message contained the specified assumedValue"
WithField(x, fld) == [x EXCEPT !.fields = Append(x.fields, fld)]
Default == (f.k \in {"num", "str"} /\ f.hd /\ FieldIdx(m, f.fn) = 0) =>
              E(f) = Eval([f EXCEPT !.idx = 0, !.hd = FALSE], WithField(m, [n |-> f.fn, t |-> IF f.k = "str" THEN "str" ELSE f.ty, v |-> <<f.d>>]))
\* the expression grammar: the token sequence of an expressible tree denotes that tree, and spells Unparse
Grammar == Expressible(f) => /\ Parse(Tokens(f, 0)) = f
                             /\ Parse(Tokens(f, 1)) = f
                             /\ Spell(Tokens(f, 0)) = Unparse(f)
\* "if you mix different operators, you will need to supply additional parentheses": (a) && (b) || (a) is an error
OtherCop(k) == IF k = "or" THEN "and" ELSE "or"
Mixed == (IsJoin(f) /\ Expressible(f)) => Parse(Tokens(f, 0) \o <<CopTok(OtherCop(f.k))>> \o GroupToks(f.kids[1], 0)) = [k |-> "error"]
=============================================================================
