SPECIFICATION Spec
CONSTANTS
  Wrong = {}
  MaxDepth = 1
  Size = "tiny"
INVARIANTS TypeOK RoundTrip RestoredDecidesAlike FieldOrder Convenience Complement DeMorgan Small OpAlgebra Default
