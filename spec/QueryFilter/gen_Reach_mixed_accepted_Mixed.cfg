SPECIFICATION Spec
CONSTANTS
  Wrong = {"mixed_accepted"}
  MaxDepth = 1
  Size = "quick"
INVARIANTS Mixed
