INIT GInit
NEXT GenNext
CONSTANTS
  Wrong = {}
  MaxDepth = 0
  Size = "deep"
