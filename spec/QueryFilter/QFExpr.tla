------------------------------- MODULE QFExpr -------------------------------
(***************************************************************************************************************)
(* C14 - the expression grammar of CreateQueryFilterFromExpression(), from the section "Building a QueryFilter  *)
(* from an expression-String" of the Beginner's Guide (html/Beginners Guide.html):                              *)
(*    Expressible(f) : the filter tree f can be written in the grammar,                                         *)
(*    Unparse(f)     : its canonical spelling, a string (harness/qf.cpp renders the same string, style 0, and   *)
(*                     QFTrace!UnparseOK compares them character by character).                                *)
(* QFParse.tla has the token level and the grammar's denotation (Tokens / Spell / Parse).                       *)
(*                                                                                                             *)
(*    Pred ::= fname [":" idx] ["|" dflt] op [cast] value  |  "exists " [cast] fname [":" idx]  |  "what" op int *)
(*    Expr ::= Pred | G (cop G)+            one cop of  &&  ||  ^  per level ("Mixed-operator conjunctions ...    *)
(*    G    ::= ["!"] "(" Expr ")"           ... ERROR, ambiguous")                                              *)
(*                                                                                                             *)
(* Two restrictions of the real parser are NOT documented and are therefore kept out of the generated strings:  *)
(* a parenthesised group that contains nothing but another group (so !(!(x)) and (!(x)) are never produced; the *)
(* spelling of a negated operand of a conjunction is !(x) && (y)), and unquoted names / values that contain a  *)
(* keyword or operator (names are f, g; unquoted text is drawn from {a, b, A, B}).                             *)
(***************************************************************************************************************)
EXTENDS QueryFilter

Chr(c) == CASE c = 97 -> "a" [] c = 98 -> "b" [] c = 65 -> "A" [] c = 66 -> "B" [] c = 42 -> "*" [] c = 63 -> "?"
            [] c = 91 -> "[" [] c = 93 -> "]" [] OTHER -> "#"
RECURSIVE Text(_)
Text(s) == IF s = <<>> THEN "" ELSE Chr(Head(s)) \o Text(Tail(s))
Spellable(s) == \A i \in DOMAIN s : s[i] \in {97, 98, 65, 66, 42, 63, 91, 93}
PlainText(s) == s # <<>> /\ \A i \in DOMAIN s : s[i] \in {97, 98, 65, 66}      \* may be written without quotes

CastTypes == {"i8", "i16", "i32", "i64", "bool", "flt", "dbl", "str", "pt", "rect"}
Cast(ty) == CASE ty = "i8" -> "(int8)" [] ty = "i16" -> "(int16)" [] ty = "i32" -> "(int32)" [] ty = "i64" -> "(int64)" [] ty = "bool" -> "(bool)"
              [] ty = "flt" -> "(float)" [] ty = "dbl" -> "(double)" [] ty = "str" -> "(string)" [] ty = "pt" -> "(point)" [] ty = "rect" -> "(rect)"
NumSpellable(ty, v) == ty \in IntTypes \cup {"bool"} \/ (ty \in FltTypes /\ v \notin {"NaN", "+inf", "-inf"})
NumText(ty, v) == CASE ty \in IntTypes -> ToString(v) [] ty = "bool" -> (IF v THEN "true" ELSE "false") [] ty \in FltTypes -> v
NumOpText == <<"==", "<", ">", "<=", ">=", "!=">>
StrOpText(op) == IF op < 12 THEN <<"==", "<", ">", "<=", ">=", "!=", "startswith", "endswith", "contains", "isstartof", "isendof", "issubstringof">>[op + 1]
                 ELSE IF op = 24 THEN "matches" ELSE "matchesregex"
\* "age:1 >= 21 matches against the second value", "age|18 <= 21 ... or against 18 if no age value is present", "age:2|18 <= 21"
FieldText(f, d) == f.fn \o (IF f.idx # 0 THEN ":" \o ToString(f.idx) ELSE "") \o (IF d # "" THEN "|" \o d ELSE "")

PredOK(f) ==
   CASE f.k = "what"   -> f.lo # NoLimit /\ (f.lo = f.hi \/ f.lo = 0 \/ f.hi = NoLimit)
     [] f.k = "exists" -> f.ty \in CastTypes \cup {"any"}
     [] f.k = "num"    -> f.op \in 0..5 /\ f.mop = 0 /\ f.ty \notin GeoTypes /\ NumSpellable(f.ty, f.val) /\ (f.hd => NumSpellable(f.ty, f.d))
     [] f.k = "str"    -> f.op \in (0..11) \cup {24, 25} /\ Spellable(f.val) /\ (f.hd => PlainText(f.d))
     [] OTHER -> FALSE
PredText(f) ==
   CASE f.k = "what"   -> IF f.lo = f.hi THEN "what == " \o ToString(f.lo) ELSE IF f.lo = 0 THEN "what <= " \o ToString(f.hi) ELSE "what >= " \o ToString(f.lo)
     [] f.k = "exists" -> "exists " \o (IF f.ty = "any" THEN "" ELSE Cast(f.ty)) \o FieldText(f, "")
     [] f.k = "num"    -> FieldText(f, IF f.hd THEN NumText(f.ty, f.d) ELSE "") \o " " \o NumOpText[f.op + 1] \o " " \o Cast(f.ty) \o NumText(f.ty, f.val)
     [] f.k = "str"    -> FieldText(f, IF f.hd THEN Text(f.d) ELSE "") \o " " \o StrOpText(f.op) \o " \"" \o Text(f.val) \o "\""

IsNot(f) == f.k = "nor" /\ Len(f.kids) = 1 /\ f.kids[1].k # "null"      \* "! - negates the following expression"
IsJoin(f) == f.k \in {"and", "or", "xor"}
JoinText(k) == CASE k = "and" -> " && " [] k = "or" -> " || " [] k = "xor" -> " ^ "
RECURSIVE XExprOK(_), XGroupOK(_), ExprText(_), GroupText(_), JoinKids(_, _, _)
XGroupOK(f) == IF IsNot(f) THEN ~IsNot(f.kids[1]) /\ XExprOK(f.kids[1]) ELSE XExprOK(f)
XExprOK(f)  == IF IsJoin(f) THEN Len(f.kids) >= 2 /\ \A i \in DOMAIN f.kids : f.kids[i].k # "null" /\ XGroupOK(f.kids[i]) ELSE PredOK(f)
GroupText(f) == IF IsNot(f) THEN "!(" \o ExprText(f.kids[1]) \o ")" ELSE "(" \o ExprText(f) \o ")"
JoinKids(kids, sep, i) == IF i > Len(kids) THEN "" ELSE (IF i > 1 THEN sep ELSE "") \o GroupText(kids[i]) \o JoinKids(kids, sep, i + 1)
ExprText(f)  == IF IsJoin(f) THEN JoinKids(f.kids, JoinText(f.k), 1) ELSE PredText(f)

Expressible(f) == IF IsNot(f) THEN XGroupOK(f) ELSE XExprOK(f)
Unparse(f)     == IF IsNot(f) THEN GroupText(f) ELSE ExprText(f)
=============================================================================
