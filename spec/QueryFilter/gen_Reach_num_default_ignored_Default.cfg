SPECIFICATION Spec
CONSTANTS
  Wrong = {"num_default_ignored"}
  MaxDepth = 1
  Size = "quick"
INVARIANTS Default
