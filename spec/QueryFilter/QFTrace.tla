------------------------------- MODULE QFTrace -------------------------------
(* C14, code -> spec: every line harness/qf.cpp recorded (one filter tree, the verdicts of the real classes on the whole   *)
(* Message menu) is judged against QueryFilter.tla.  One initial state per line, so that TLC reports every bad line with  *)
(* -continue; the file is sharded over several TLC processes by checks/c14.py.                                            *)
EXTENDS QFExpr, Json, IOUtils

VARIABLE i
Log  == ndJsonDeserialize(IOEnv.TRACE)
Menu == Log[1].menu                   \* first line: the Messages every tree of this file was evaluated on
N    == Len(Log)
Ln   == Log[i]

Init == TLCSet(2, 0) /\ i \in 2..N
Next == UNCHANGED i

Report(inv, what) == PrintT("@@" \o ToJson([line |-> i, id |-> Ln.id, inv |-> inv, bad |-> what])) /\ FALSE

\* the property-level oracle -------------------------------------------------------------------------------------------
\* Matches() of the tree built through the public constructors is a verdict the documentation allows
\* (register 2 counts the evaluations that were judged, i.e. where the documentation fixes the verdict; needs -workers 1)
EvalOK == LET E == [j \in DOMAIN Menu |-> Eval(Ln.f, Menu[j])]
              bad == {j \in DOMAIN Menu : (Ln.v[j] = 1) \notin E[j]}
          IN /\ TLCSet(2, TLCGet(2) + Cardinality({j \in DOMAIN Menu : E[j] # Either}))
             /\ (bad = {} \/ Report("EvalOK", bad))
\* evaluation (original, restored and parsed filter) left the flattened bytes of every Message unchanged
UnchangedOK == Ln.same \/ Report("UnchangedOK", {})
\* SaveToArchive -> factory succeeds and the restored filter decides like the original on every Message (a tree with a NULL
\* child is not a tree the archive can represent: only success is required there)
ArchiveOK == (Ln.aok /\ (HasNull(Ln.f) \/ Ln.va = Ln.v)) \/ Report("ArchiveOK", IF Ln.aok THEN {j \in DOMAIN Menu : Ln.va[j] # Ln.v[j]} ELSE {})
\* an expression of the documented grammar parses, and the filter decides like the tree the expression denotes
ExprOK == (Ln.x = "" \/ (Ln.xok /\ Ln.vx = Ln.v)) \/ Report("ExprOK", IF Ln.xok THEN {j \in DOMAIN Menu : Ln.vx[j] # Ln.v[j]} ELSE {})
\* "if you mix different operators, you will need to supply additional parentheses": the mixed spelling is refused
MixedOK == (Ln.mx = "" \/ Ln.mxrej) \/ Report("MixedOK", {})

\* algorithm-level / machinery-level agreement (a failure is drift resp. a harness error, never a verdict on the property) ----
\* the archive SaveToArchive() wrote is the specification's Archive form (so the hostile archives derived from it are realistic)
ArchiveForm == SameMsg(Ln.a, Archive(Ln.f)) \/ Report("ArchiveForm", {})
\* the expression string the harness rendered in the canonical style is the specification's Unparse of the tree
UnparseOK == (Ln.x = "" \/ Ln.st # 0 \/ (Expressible(Ln.f) /\ Ln.x = Unparse(Ln.f))) \/ Report("UnparseOK", {})

Summary == PrintT("@@" \o ToJson([summary |-> TRUE, lines |-> N - 1, menu |-> Len(Menu), judged |-> TLCGet(2)]))
=============================================================================
