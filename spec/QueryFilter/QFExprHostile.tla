---------------------------- MODULE QFExprHostile ----------------------------
(***************************************************************************************************************)
(* C14, spec -> code (the must-not-crash clause for expression strings): hostile expression strings spelled     *)
(* from the token alphabet of QFParse.tla.  The grammar gives a predicate the shape  name op [cast] value ;      *)
(* here EVERY cast (and none) meets a value lexeme of EVERY shape - fewer / more comma-separated components than *)
(* the cast's type has, leading / trailing / doubled commas, empty, quoted, non-numeric, huge - and a field      *)
(* name with an index / assumed default of every shape (short and long defaults, a cast inside the default).   *)
(* The same for  exists [cast] name  and  what op value , each string also inside  ( ) , !( ) and a conjunction, *)
(* with the canonical and with wide spacing; plus every token sequence of length <= 2 and a sample of length 3. *)
(* Only a few of these strings have a documented meaning (those are judged through QFTrace!ExprOK on the        *)
(* rendered trees); for all of them CreateQueryFilterFromExpression() must return a filter that evaluates       *)
(* safely or a NULL reference - harness/qf.cpp "hx", asan variant; a crash or sanitizer report is a VIOLATION.   *)
(* The Beginner's Guide documents no point / rect literal at all, so their meaning is Either.                   *)
(***************************************************************************************************************)
EXTENDS QFParse, Json, IOUtils

VARIABLE done

RawLx(s) == Lx("raw", s, FALSE, FALSE, 0, "0", FALSE, <<>>)
V(s) == ValTok(RawLx(s))
N(s) == [t |-> "name", fn |-> s, idx |-> 0, hd |-> FALSE, d |-> NoLx]      \* spelled exactly s

ValueShapes == <<"5", "-5", "5,", ",5", "5,0", "5,,0", ",", ",,,", "1,2", "1,2,", "1,2,3", "1,2,3,", "1,2,3,4", "1,2,3,4,", "1,2,3,4,5", ",1,2,3", "1,,,4",
                 "\"\"", "\"ab\"", "\"5,0\"", "\"1,2,3,4\"", "ab", "a,b", "true", "false", "2.5", "2f", "2.5f", ".", "-", "+", "-,-", ".,.", "1e99999", "-1e99999,1e99999",
                 "99999999999999999999", "-99999999999999999999", "0x10", "nan", "inf,nan", "5|5", "a:b", "5:1">>
NameShapes == <<"f", "f:1", "f:", "f:-1", "f:99999999999", "f:x", "f|5", "f|", "f|5,", "f|,5", "f|5,0", "f|1,2", "f|1,2,3", "f|1,2,3,4", "f|1,2,3,4,5", "f|ab", "f|\"ab\"",
                "f|true", "f|2.5", "f|2f", "f|-", "f|1e99999", "f:1|5", "f:1|5,", "f:5|1,2,3,", "f|5|6", "f|5:1", "|5", "|", ":1", ":", "\"f\"", "\"f:1\"", "\"f|5\"", "\"\"",
                "f|(point)5", "f|(rect)1,2", "f|(int32)5", "f|(string)ab">>
CastShapes == <<"", "(int8)", "(int16)", "(int32)", "(int64)", "(bool)", "(float)", "(double)", "(string)", "(point)", "(rect)">>
OpShapes == <<"==", "!=", "<", ">=", "contains", "matches", "matchesregex", "isendof">>
RawCast(s) == [t |-> "op", s |-> s]       \* spelled as is (TokText of an op token is its s); "" spells nothing

\* wide spacing: one blank between all tokens ("(point) 5")
RECURSIVE Wide(_, _)
Wide(toks, i) == IF i > Len(toks) THEN "" ELSE (IF i > 1 /\ TokText(toks[i]) # "" THEN " " ELSE "") \o TokText(toks[i]) \o Wide(toks, i + 1)
Tight(toks) == Spell(SelectSeq(toks, LAMBDA x : TokText(x) # ""))

Nn == Len(NameShapes)
Nv == Len(ValueShapes)
Nc == Len(CastShapes)
No == Len(OpShapes)
\* name op cast value: every cast x every value shape (plain name, every operator in turn), every name shape x every cast x a few values
CmpA == [j \in 1..(Nc * Nv) |-> LET c == ((j - 1) \div Nv) + 1
                                     v == ((j - 1) % Nv) + 1
                                 IN <<N("f"), OpTok("=="), RawCast(CastShapes[c]), V(ValueShapes[v])>>]
\* the same with the other operators in turn (a conversion is only reached with an operator the value's type supports)
CmpA2 == [j \in 1..(Nc * Nv) |-> LET c == ((j - 1) \div Nv) + 1
                                      v == ((j - 1) % Nv) + 1
                                  IN <<N("g:1"), OpTok(OpShapes[((j + c) % No) + 1]), RawCast(CastShapes[c]), V(ValueShapes[v])>>]
FewValues == <<"5", "5,", "5,0", "1,2,3", "1,2,3,4", "\"ab\"", "ab", "true", "2.5", "">>
CmpB == [j \in 1..(Nn * Nc * Len(FewValues)) |-> LET n == ((j - 1) \div (Nc * Len(FewValues))) + 1
                                                      c == (((j - 1) \div Len(FewValues)) % Nc) + 1
                                                      v == ((j - 1) % Len(FewValues)) + 1
                                                  IN <<N(NameShapes[n]), OpTok(IF n % 4 = 0 THEN "<" ELSE "=="), RawCast(CastShapes[c]), V(FewValues[v])>>]
Exs == [j \in 1..(Nn * Nc) |-> <<ExistsTok, RawCast(CastShapes[((j - 1) % Nc) + 1]), N(NameShapes[((j - 1) \div Nc) + 1])>>]
Whats == [j \in 1..(Nv * Nc) |-> <<WhatTok, OpTok(OpShapes[((j - 1) % 4) + 1]), RawCast(CastShapes[((j - 1) \div Nv) + 1]), V(ValueShapes[((j - 1) % Nv) + 1])>>]
Preds == CmpA \o CmpA2 \o CmpB \o Exs \o Whats

\* every token sequence of length 1 and 2 over the alphabet, and pairs extended by a value / a parenthesis
Alphabet == <<LP, RP, NotTok, CopTok("and"), CopTok("or"), CopTok("xor"), ExistsTok, WhatTok, OpTok("=="), OpTok("<"), OpTok("contains"), OpTok("="), OpTok("is"),
              RawCast("(point)"), RawCast("(rect)"), RawCast("(int32)"), RawCast("(string)"), RawCast("(bool)"), N("f"), N("f:1|5,"), N("|"), V("5"), V("5,"), V("1,2,3,"),
              V("\""), V("\"ab"), V("ab\""), V(","), V("")>>
Na == Len(Alphabet)
Soup1 == [j \in 1..Na |-> <<Alphabet[j]>>]
Soup2 == [j \in 1..(Na * Na) |-> <<Alphabet[((j - 1) \div Na) + 1], Alphabet[((j - 1) % Na) + 1]>>]
Soup3 == [j \in 1..(Na * Na) |-> <<Alphabet[((j - 1) \div Na) + 1], Alphabet[((j - 1) % Na) + 1], Alphabet[((j * 7) % Na) + 1]>>]
Soup4 == [j \in 1..(Na * Na) |-> <<LP, Alphabet[((j - 1) \div Na) + 1], Alphabet[((j - 1) % Na) + 1], RP, Alphabet[((j * 5) % Na) + 1], Alphabet[((j * 11) % Na) + 1]>>]

\* a predicate alone (both spacings), in a group, negated, and as both operands of a conjunction
Ctx(p, k) == CASE k = 1 -> Tight(p) [] k = 2 -> Wide(p, 1) [] k = 3 -> "(" \o Wide(p, 1) \o ")" [] k = 4 -> "!(" \o Tight(p) \o ")"
               [] k = 5 -> "(" \o Tight(p) \o ") && (" \o Wide(p, 1) \o ")" [] k = 6 -> "(f == 1) || !(" \o Wide(p, 1) \o ")"
PredStrings == [j \in 1..(Len(Preds) * 2) |-> Ctx(Preds[((j - 1) \div 2) + 1], ((j - 1) % 2) + 1)]
\* the other contexts for a sample (every third predicate)
CtxStrings == [j \in 1..((Len(Preds) \div 3) * 4) |-> Ctx(Preds[(((j - 1) \div 4) * 3) + 1], ((j - 1) % 4) + 3)]
Soups == Soup1 \o Soup2 \o Soup3 \o Soup4
SoupStrings == [j \in 1..Len(Soups) |-> Wide(Soups[j], 1)]
AllStrings == PredStrings \o CtxStrings \o SoupStrings
Cases == [i \in DOMAIN AllStrings |-> [id |-> i, x |-> AllStrings[i]]]

\* the strings of the mutant that escaped the first version of this check are among them
ASSUME \A s \in {"f == (point) 5", "f == (rect) 1,2", "f == 5,", "f == 1,2,3,", "f|5 == 5,0"} : \E i \in DOMAIN AllStrings : AllStrings[i] = s

XInit == done = (ndJsonSerialize(IOEnv.OUT, Cases) /\ PrintT("@@" \o ToJson([cases |-> Len(Cases), preds |-> Len(Preds), soups |-> Len(Soups)])))
XNext == UNCHANGED done
=============================================================================
