INIT Init
NEXT Next
CONSTANT Wrong = {}
INVARIANTS EvalOK UnchangedOK ArchiveOK ExprOK MixedOK ArchiveForm UnparseOK
POSTCONDITION Summary
