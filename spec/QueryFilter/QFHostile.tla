------------------------------ MODULE QFHostile ------------------------------
(***************************************************************************************************************)
(* C14, spec -> code (the must-not-crash clause): hostile archives derived from the specification's Archive     *)
(* form.  For every base filter b (one or more of every class) a == Archive(b) is damaged in one place:         *)
(*   remove:<field>   retype:<field>:<type>   dup:<field> (its items twice)   what:<code> (read by another class, *)
(*   the guard value, 0, -1)   nest (the archive as its own child, 200 deep; or 200 combinator / Message-filter  *)
(*   archives around it)   kid-remove / kid-retype (the same damage one level down)   ok (undamaged).           *)
(* TLC writes them as ndjson ([mut, a]); harness/qf.cpp (asan variant) feeds each to the global factory: it     *)
(* must fail cleanly or yield a filter that evaluates safely on the whole Message menu.                         *)
(***************************************************************************************************************)
EXTENDS QFLaws, Json, IOUtils, SequencesExt

VARIABLE done
NestDepth == 200

L1 == Num("i32", "f", 0, 3, 1, 0, 0, FALSE, 0)
L2 == Str("g", 1, 12, <<65, 66>>, TRUE, ab)
L3 == [k |-> "exists", fn |-> "f", idx |-> 1, ty |-> "i32"]
Bases == SetToSeq(LeafCore \cup LeafMore \cup {
            Comb(<<"and", 0>>, <<L1, Comb(<<"max", 1>>, <<L2, L3>>)>>),
            Comb(<<"xor", 0>>, <<L1, L2>>),
            Comb(<<"min", 1>>, <<L3, L2, L1>>),
            Comb(<<"nor", 0>>, <<L1>>),
            MsgF("g", 1, <<Comb(<<"or", 0>>, <<L1, L3>>)>>, <<Sub2>>)})

EmptyMsg == [what |-> 0, fields |-> <<>>]
\* (type, item) pairs a field is retyped to
Retypes == <<[t |-> "str", x |-> <<98>>], [t |-> "i32", x |-> 7], [t |-> "i32", x |-> 2147483647], [t |-> "i8", x |-> -1], [t |-> "i64", x |-> -1],
             [t |-> "raw", x |-> <<1, 2>>], [t |-> "msg", x |-> EmptyMsg], [t |-> "bool", x |-> TRUE], [t |-> "dbl", x |-> "NaN"], [t |-> "pt", x |-> <<1, 2>>]>>
Whats == [i \in 1..20 |-> QFBase + i - 1] \o <<0, -1, QFBase - 1>>

Case(mut, a) == [mut |-> mut, a |-> a, nest |-> [how |-> "none", code |-> 0, depth |-> 0]]
DropField(a, i) == [a EXCEPT !.fields = SubSeq(@, 1, i - 1) \o SubSeq(@, i + 1, Len(@))]
RetypeAt(a, i, r) == [a EXCEPT !.fields[i] = [n |-> @.n, t |-> r.t, v |-> <<r.x>>]]
DupAt(a, i) == [a EXCEPT !.fields[i].v = @ \o @]
NF(a) == Len(a.fields)
Removes(a, tag) == [i \in 1..NF(a) |-> Case(tag \o "remove:" \o a.fields[i].n, DropField(a, i))]
Dups(a, tag) == [i \in 1..NF(a) |-> Case(tag \o "dup:" \o a.fields[i].n, DupAt(a, i))]
RetypesOf(a, tag) == [j \in 1..(NF(a) * Len(Retypes)) |->
                        LET i == ((j - 1) \div Len(Retypes)) + 1
                            r == Retypes[((j - 1) % Len(Retypes)) + 1]
                        IN Case(tag \o "retype:" \o a.fields[i].n \o ":" \o r.t, RetypeAt(a, i, r))]
WrongWhats(a) == [i \in 1..Len(Whats) |-> Case("what:" \o ToString(Whats[i]), [a EXCEPT !.what = Whats[i]])]

KidIdx(a) == FieldIdx(a, "kid")
RECURSIVE NestSelf(_, _), WrapN(_, _, _)
NestSelf(a, d) == IF d = 0 THEN a ELSE [a EXCEPT !.fields[KidIdx(a)].v = <<NestSelf(a, d - 1)>>]
WrapN(inner, d, code) == IF d = 0 THEN inner
                         ELSE [what |-> QFBase + code,
                               fields |-> (IF code = 12 THEN <<Fld("fn", "str", <<<<102>>>>)>> ELSE <<>>) \o <<Fld("kid", "msg", <<WrapN(inner, d - 1, code)>>)>>]
\* (written as a descriptor - the archive plus how to nest it - which the harness expands into the Message NestSelf / WrapN denote;
\* a 200-deep JSON value per case would only slow the run down)
NoNest == [how |-> "none", code |-> 0, depth |-> 0]
NestCase(mut, a, how, code) == [mut |-> mut, a |-> a, nest |-> [how |-> how, code |-> code, depth |-> NestDepth]]
Nests(a) == (IF KidIdx(a) # 0 THEN <<NestCase("nest:self", a, "self", 0)>> ELSE <<>>)
            \o <<NestCase("nest:min", a, "wrap", 15), NestCase("nest:max", a, "wrap", 14), NestCase("nest:xor", a, "wrap", 16), NestCase("nest:msg", a, "wrap", 12)>>
\* the same damage inside the first child archive
InKid(a, c) == Case(c.mut, [a EXCEPT !.fields[KidIdx(a)].v[1] = c.a])
\* the nesting the descriptors stand for (checked for a small depth by the ASSUME below)
KidCases(a) == IF KidIdx(a) = 0 THEN <<>>
               ELSE LET k == a.fields[KidIdx(a)].v[1]
                        cs == Removes(k, "kid-") \o RetypesOf(k, "kid-") \o Dups(k, "kid-")
                    IN [i \in DOMAIN cs |-> InKid(a, cs[i])]
CasesOf(b) == LET a == Archive(b) IN <<Case("ok", a)>> \o Removes(a, "") \o RetypesOf(a, "") \o Dups(a, "") \o WrongWhats(a) \o Nests(a) \o KidCases(a)
RECURSIVE AllCases(_)
AllCases(i) == IF i > Len(Bases) THEN <<>> ELSE CasesOf(Bases[i]) \o AllCases(i + 1)
Cases == LET cs == AllCases(1) IN [i \in DOMAIN cs |-> [id |-> i, mut |-> cs[i].mut, a |-> cs[i].a, nest |-> cs[i].nest]]

\* the nesting descriptors mean NestSelf / WrapN: small instances are archives of the expected shape
ASSUME LET a == Archive(Comb(<<"xor", 0>>, <<L1, L2>>))
           s == FromArchive(NestSelf(a, 2))
           w == FromArchive(WrapN(a, 2, 15))
       IN /\ s.k = "xor" /\ Len(s.kids) = 1 /\ s.kids[1].k = "xor" /\ s.kids[1].kids[1] = FromArchive(a)
          /\ w.k = "min" /\ w.n = NoLimit /\ w.kids[1].kids[1] = FromArchive(a)

GenInit == done = (ndJsonSerialize(IOEnv.OUT, Cases) /\ PrintT("@@" \o ToJson([cases |-> Len(Cases), bases |-> Len(Bases)])))
GenNext == UNCHANGED <<done, f, m>>
GInit == GenInit /\ f = L1 /\ m = EmptyMsg
=============================================================================
