SPECIFICATION Spec
CONSTANTS
  Wrong = {}
  MaxDepth = 2
  Size = "quick"
INVARIANTS TypeOK RoundTrip RestoredDecidesAlike FieldOrder Convenience Complement DeMorgan Small OpAlgebra Default Grammar Mixed
