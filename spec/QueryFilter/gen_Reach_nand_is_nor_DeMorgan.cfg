SPECIFICATION Spec
CONSTANTS
  Wrong = {"nand_is_nor"}
  MaxDepth = 1
  Size = "quick"
INVARIANTS DeMorgan
