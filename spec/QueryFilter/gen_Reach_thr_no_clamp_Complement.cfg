SPECIFICATION Spec
CONSTANTS
  Wrong = {"thr_no_clamp"}
  MaxDepth = 1
  Size = "quick"
INVARIANTS Complement
