SPECIFICATION Spec
CONSTANTS
  Wrong = {"or_empty_false"}
  MaxDepth = 1
  Size = "quick"
INVARIANTS Convenience
