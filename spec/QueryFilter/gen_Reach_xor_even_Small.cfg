SPECIFICATION Spec
CONSTANTS
  Wrong = {"xor_even"}
  MaxDepth = 1
  Size = "quick"
INVARIANTS Small
