SPECIFICATION Spec
CONSTANTS
  Wrong = {"dot_means_float"}
  MaxDepth = 1
  Size = "quick"
INVARIANTS Grammar
