SPECIFICATION Spec
CONSTANTS
  Wrong = {"archive_drops_idx"}
  MaxDepth = 1
  Size = "quick"
INVARIANTS RoundTrip
