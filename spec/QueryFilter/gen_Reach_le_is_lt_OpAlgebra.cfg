SPECIFICATION Spec
CONSTANTS
  Wrong = {"le_is_lt"}
  MaxDepth = 1
  Size = "quick"
INVARIANTS OpAlgebra
