------------------------------- MODULE QFParse -------------------------------
(***************************************************************************************************************)
(* C14 - the denotation of the expression grammar (Beginner's Guide, "Building a QueryFilter from an           *)
(* expression-String"): Tokens(f, style) spells an expressible filter tree as a token sequence, Spell(toks)    *)
(* is the string of a token sequence, Parse(toks) reads a token sequence back into the filter tree it denotes  *)
(* (recursive descent over  Pred | G (cop G)+ ,  G ::= ["!"] "(" Expr ")" ).                                    *)
(*   style 0: explicit casts, quoted strings (the canonical spelling, = QFExpr!Unparse)                        *)
(*   style 1: the documented type heuristics instead of casts: true/false -> bool, digits followed by f ->     *)
(*            float, digits with a dot -> double, digits -> int32, "non-numeric chars at start" -> string      *)
(* TLC checks  Parse(Tokens(f, s)) = f  and  Spell(Tokens(f, 0)) = Unparse(f)  (QFLaws!Grammar).               *)
(***************************************************************************************************************)
EXTENDS QFExpr

\* constructors of well-formed leaves (absent optional parts carry the fixed dummy)
Num(ty, fn, idx, op, val, mop, msk, hd, d) == [k |-> "num", ty |-> ty, fn |-> fn, idx |-> idx, op |-> op, val |-> val, mop |-> mop,
                                               msk |-> IF mop = 0 THEN ZeroOf(ty) ELSE msk, hd |-> hd, d |-> IF hd THEN d ELSE ZeroOf(ty)]
Str(fn, idx, op, val, hd, d) == [k |-> "str", fn |-> fn, idx |-> idx, op |-> op, val |-> val, hd |-> hd, d |-> IF hd THEN d ELSE <<>>]
What(lo, hi) == [k |-> "what", lo |-> lo, hi |-> hi]
NotOf(x) == [k |-> "nor", kids |-> <<x>>]

\* lexemes: what a value looks like (its spelling class) and what it means under each type
Lx(lx, s, dot, fsuf, iv, fv, bv, cv) == [lx |-> lx, s |-> s, dot |-> dot, fsuf |-> fsuf, iv |-> iv, fv |-> fv, bv |-> bv, cv |-> cv]
NoLx == Lx("none", "", FALSE, FALSE, 0, "0", FALSE, <<>>)
IntLx(v) == Lx("num", ToString(v), FALSE, FALSE, v, ToString(v), FALSE, <<>>)
HasDot(t) == t \in {"0.5", "2.5"}
FltLx(t, withDot, withF) == Lx("num", t \o (IF withDot /\ ~HasDot(t) THEN ".0" ELSE "") \o (IF withF THEN "f" ELSE ""), withDot \/ HasDot(t), withF, 0, t, FALSE, <<>>)
BoolLx(b) == Lx("bool", IF b THEN "true" ELSE "false", FALSE, FALSE, 0, "0", b, <<>>)
TextLx(c) == Lx("text", Text(c), FALSE, FALSE, 0, "0", FALSE, c)
QuotedLx(c) == Lx("quoted", "\"" \o Text(c) \o "\"", FALSE, FALSE, 0, "0", FALSE, c)
Interp(ty, lx) == CASE ty \in IntTypes -> lx.iv [] ty \in FltTypes -> lx.fv [] ty = "bool" -> lx.bv [] ty = "str" -> lx.cv
\* "If you don't supply an explicit-cast, some heuristics will be used to determine the type to look for"
InferType(lx) == CASE lx.lx = "bool" -> "bool" [] lx.lx \in {"quoted", "text"} -> "str"
                   [] lx.lx = "num" -> (IF lx.fsuf \/ (lx.dot /\ "dot_means_float" \in Wrong) THEN "flt" ELSE IF lx.dot THEN "dbl" ELSE "i32")
                   [] OTHER -> "?"

\* tokens
LP == [t |-> "lp"]
RP == [t |-> "rp"]
NotTok == [t |-> "not"]
CopTok(k) == [t |-> "cop", k |-> k]
ExistsTok == [t |-> "exists"]
WhatTok == [t |-> "what"]
CastTok(ty) == [t |-> "cast", ty |-> ty]
OpTok(s) == [t |-> "op", s |-> s]
NameTok(fn, idx, hd, d) == [t |-> "name", fn |-> fn, idx |-> idx, hd |-> hd, d |-> d]
ValTok(lx) == [t |-> "val", lx |-> lx]

ValLx(ty, v, st) == CASE ty \in IntTypes -> IntLx(v)
                      [] ty = "bool" -> BoolLx(v)
                      [] ty = "flt" -> FltLx(v, FALSE, st = 1)
                      [] ty = "dbl" -> FltLx(v, st = 1, FALSE)
NeedsCast(ty, st) == st = 0 \/ ty \notin {"i32", "bool", "flt", "dbl"}
PredToks(f, st) ==
   \* style 1 spells the strict comparisons: what < hi+1, what > lo-1
   CASE f.k = "what"   -> IF f.lo = f.hi THEN <<WhatTok, OpTok("=="), ValTok(IntLx(f.lo))>>
                          ELSE IF f.lo = 0 THEN (IF st = 1 THEN <<WhatTok, OpTok("<"), ValTok(IntLx(f.hi + 1))>> ELSE <<WhatTok, OpTok("<="), ValTok(IntLx(f.hi))>>)
                          ELSE (IF st = 1 THEN <<WhatTok, OpTok(">"), ValTok(IntLx(f.lo - 1))>> ELSE <<WhatTok, OpTok(">="), ValTok(IntLx(f.lo))>>)
     [] f.k = "exists" -> <<ExistsTok>> \o (IF f.ty = "any" THEN <<>> ELSE <<CastTok(f.ty)>>) \o <<NameTok(f.fn, f.idx, FALSE, NoLx)>>
     [] f.k = "num"    -> <<NameTok(f.fn, f.idx, f.hd, IF f.hd THEN ValLx(f.ty, f.d, 0) ELSE NoLx), OpTok(NumOpText[f.op + 1])>>
                          \o (IF NeedsCast(f.ty, st) THEN <<CastTok(f.ty)>> ELSE <<>>) \o <<ValTok(ValLx(f.ty, f.val, IF NeedsCast(f.ty, st) THEN 0 ELSE st))>>
     [] f.k = "str"    -> <<NameTok(f.fn, f.idx, f.hd, IF f.hd THEN TextLx(f.d) ELSE NoLx), OpTok(StrOpText(f.op)),
                            ValTok(IF st = 1 /\ PlainText(f.val) THEN TextLx(f.val) ELSE QuotedLx(f.val))>>
RECURSIVE ExprToks(_, _), GroupToks(_, _), JoinToks(_, _, _, _)
GroupToks(f, st) == IF IsNot(f) THEN <<NotTok, LP>> \o ExprToks(f.kids[1], st) \o <<RP>> ELSE <<LP>> \o ExprToks(f, st) \o <<RP>>
JoinToks(kids, k, st, i) == IF i > Len(kids) THEN <<>> ELSE (IF i > 1 THEN <<CopTok(k)>> ELSE <<>>) \o GroupToks(kids[i], st) \o JoinToks(kids, k, st, i + 1)
ExprToks(f, st) == IF IsJoin(f) THEN JoinToks(f.kids, f.k, st, 1) ELSE PredToks(f, st)
Tokens(f, st) == IF IsNot(f) THEN GroupToks(f, st) ELSE ExprToks(f, st)

\* the string of a token sequence
TokText(x) == CASE x.t = "lp" -> "(" [] x.t = "rp" -> ")" [] x.t = "not" -> "!" [] x.t = "cop" -> (CASE x.k = "and" -> "&&" [] x.k = "or" -> "||" [] x.k = "xor" -> "^")
                [] x.t = "exists" -> "exists" [] x.t = "what" -> "what" [] x.t = "cast" -> Cast(x.ty) [] x.t = "op" -> x.s
                [] x.t = "name" -> x.fn \o (IF x.idx # 0 THEN ":" \o ToString(x.idx) ELSE "") \o (IF x.hd THEN "|" \o x.d.s ELSE "")
                [] x.t = "val" -> x.lx.s
Glue(a, b) == IF a.t \in {"lp", "not", "cast"} \/ b.t = "rp" THEN "" ELSE " "
RECURSIVE SpellFrom(_, _)
SpellFrom(toks, i) == IF i > Len(toks) THEN "" ELSE (IF i > 1 THEN Glue(toks[i - 1], toks[i]) ELSE "") \o TokText(toks[i]) \o SpellFrom(toks, i + 1)
Spell(toks) == SpellFrom(toks, 1)

\* reading a token sequence
Fail == [ok |-> FALSE, f |-> [k |-> "error"], rest |-> <<>>]
Ok(x, r) == [ok |-> TRUE, f |-> x, rest |-> r]
Is(toks, kind) == toks # <<>> /\ toks[1].t = kind
NumOpCode(s) == CASE s = "==" -> 0 [] s = "<" -> 1 [] s = ">" -> 2 [] s = "<=" -> 3 [] s = ">=" -> 4 [] s = "!=" -> 5 [] OTHER -> -1
StrOpCode(s) == CASE s = "startswith" -> 6 [] s = "endswith" -> 7 [] s = "contains" -> 8 [] s = "isstartof" -> 9 [] s = "isendof" -> 10
                  [] s = "issubstringof" -> 11 [] s = "matches" -> 24 [] s = "matchesregex" -> 25 [] OTHER -> NumOpCode(s)

ParsePred(toks) ==
   IF Is(toks, "exists") THEN                                          \* "exists - matches if a specified fieldname exists"
      LET r == Tail(toks)
          hasCast == Is(r, "cast")
          r2 == IF hasCast THEN Tail(r) ELSE r
      IN IF Is(r2, "name") /\ ~r2[1].hd THEN Ok([k |-> "exists", fn |-> r2[1].fn, idx |-> r2[1].idx, ty |-> IF hasCast THEN r[1].ty ELSE "any"], Tail(r2)) ELSE Fail
   ELSE IF Is(toks, "what") THEN                                       \* "(what == 1234) && ..."
      IF Len(toks) >= 3 /\ toks[2].t = "op" /\ toks[3].t = "val" /\ toks[3].lx.lx = "num" /\ ~toks[3].lx.dot /\ ~toks[3].lx.fsuf THEN
         LET n == toks[3].lx.iv
             s == toks[2].s
             r == SubSeq(toks, 4, Len(toks))
         IN CASE s = "==" -> Ok(What(n, n), r) [] s = "!=" -> Ok(NotOf(What(n, n)), r) [] s = "<=" -> Ok(What(0, n), r) [] s = ">=" -> Ok(What(n, NoLimit), r)
              [] s = "<" -> Ok(IF n = 0 THEN What(1, 0) ELSE What(0, n - 1), r) [] s = ">" -> Ok(What(n + 1, NoLimit), r) [] OTHER -> Fail
      ELSE Fail
   ELSE IF Is(toks, "name") /\ Len(toks) >= 3 /\ toks[2].t = "op" THEN   \* "(fieldname infix_op targetvalue)"
      LET hasCast == toks[3].t = "cast"
          vi == IF hasCast THEN 4 ELSE 3
      IN IF Len(toks) < vi \/ toks[vi].t # "val" THEN Fail
         ELSE LET lx == toks[vi].lx
                  ty == IF hasCast THEN toks[3].ty ELSE InferType(lx)
                  nm == toks[1]
                  r  == SubSeq(toks, vi + 1, Len(toks))
              IN IF ty = "str" THEN (IF StrOpCode(toks[2].s) = -1 THEN Fail ELSE Ok(Str(nm.fn, nm.idx, StrOpCode(toks[2].s), lx.cv, nm.hd, nm.d.cv), r))
                 ELSE IF ty \notin IntTypes \cup FltTypes \cup {"bool"} \/ NumOpCode(toks[2].s) = -1 THEN Fail
                 \* "the parser assumes that the default-value's type is the same as the type it is using for the right-hand side"
                 ELSE Ok(Num(ty, nm.fn, nm.idx, NumOpCode(toks[2].s), Interp(ty, lx), 0, ZeroOf(ty), nm.hd, Interp(ty, nm.d)), r)
   ELSE Fail

RECURSIVE ParseGroup(_), ParseInner(_), ParseJoin(_, _), ParseMore(_, _)
\* Expr inside parentheses or at the top: a predicate, a negated predicate ("!exists (int32)age"), or groups joined by ONE operator
ParseInner(toks) == IF Is(toks, "not") /\ ~Is(Tail(toks), "lp") THEN LET p == ParsePred(Tail(toks)) IN IF p.ok THEN Ok(NotOf(p.f), p.rest) ELSE Fail
                    ELSE IF Is(toks, "lp") \/ Is(toks, "not") THEN ParseJoin(toks, FALSE)
                    ELSE ParsePred(toks)
ParseGroup(toks) == LET neg == Is(toks, "not")
                        r == IF neg THEN Tail(toks) ELSE toks
                    IN IF ~Is(r, "lp") THEN Fail
                       ELSE LET e == ParseInner(Tail(r)) IN
                            IF ~e.ok \/ ~Is(e.rest, "rp") THEN Fail ELSE Ok(IF neg THEN NotOf(e.f) ELSE e.f, Tail(e.rest))
\* more == [ok, kids, rest]: the groups after the first; a second kind of operator on the same level is the documented error
ParseMore(toks, k) == IF ~Is(toks, "cop") THEN [ok |-> TRUE, kids |-> <<>>, rest |-> toks]
                      ELSE IF toks[1].k # k /\ "mixed_accepted" \notin Wrong THEN [ok |-> FALSE, kids |-> <<>>, rest |-> <<>>]          \* "ERROR, ambiguous"
                      ELSE LET g == ParseGroup(Tail(toks)) IN
                           IF ~g.ok THEN [ok |-> FALSE, kids |-> <<>>, rest |-> <<>>]
                           ELSE LET more == ParseMore(g.rest, k) IN [ok |-> more.ok, kids |-> <<g.f>> \o more.kids, rest |-> more.rest]
ParseJoin(toks, aloneOK) == LET g == ParseGroup(toks) IN
                            IF ~g.ok THEN Fail
                            ELSE IF ~Is(g.rest, "cop") THEN (IF aloneOK THEN g ELSE Fail)   \* a group holding nothing but a group is outside the documented grammar
                            ELSE LET more == ParseMore(g.rest, g.rest[1].k) IN
                                 IF ~more.ok THEN Fail ELSE Ok([k |-> g.rest[1].k, kids |-> <<g.f>> \o more.kids], more.rest)
Parse(toks) == LET e == IF Is(toks, "not") /\ ~Is(Tail(toks), "lp") THEN ParseInner(toks)
                        ELSE IF Is(toks, "lp") \/ Is(toks, "not") THEN ParseJoin(toks, TRUE) ELSE ParsePred(toks)
               IN IF e.ok /\ e.rest = <<>> THEN e.f ELSE [k |-> "error"]
=============================================================================
