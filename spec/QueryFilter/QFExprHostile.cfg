INIT XInit
NEXT XNext
CONSTANTS
  Wrong = {}
