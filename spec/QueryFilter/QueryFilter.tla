----------------------------- MODULE QueryFilter -----------------------------
(***************************************************************************************************************)
(* C14 - the documented meaning of muscle's QueryFilter classes as a function oracle.                          *)
(*                                                                                                             *)
(* Everything in the section "what a filter accepts" is written from the CLASS DOCUMENTATION in               *)
(* regex/QueryFilter.h (class, constructor and enum comments) and, for the two delegated operators, from       *)
(* regex/StringMatcher.h (SetPattern) - never from QueryFilter.cpp.  The readings that the documentation      *)
(* leaves open were fixed in the design phase (DESIGN.md "### C14"); they are marked (R1)..(R9) below.         *)
(* Eval(f, msg) is a non-empty SUBSET of BOOLEAN: {TRUE}, {FALSE}, or Either = BOOLEAN where the documentation *)
(* is silent (then only memory safety and the agreement of original / restored / parsed filter is judged).     *)
(*                                                                                                             *)
(* Data (exactly what harness/qf.cpp logs as nested JSON):                                                     *)
(*   Message  [what |-> Int, fields |-> Seq([n |-> name, t |-> type tag, v |-> Seq(item)])]                   *)
(*            type tags and their items:  i8 i16 i32 i64 : small Int      bool : BOOLEAN                       *)
(*            flt dbl : a token of FTok ("NaN", "-0", "+inf", ... ; finite values are tokens too, so that an   *)
(*            item has one shape)          str : Seq(character code)       raw : Seq(byte)                     *)
(*            msg : Message                pt : <<x, y>>   rect : <<l, t, r, b>>   (small Int coordinates)     *)
(*   Filter   a record with the field k (kind) and the fields of that kind:                                    *)
(*            what [lo, hi]      exists [fn, idx, ty]  (ty: a type tag or "any")      null  (a NULL child)        *)
(*            num  [ty, fn, idx, op, val, mop, msk, hd, d]   (hd: has an assumed default d; else d = ZeroOf(ty);   *)
(*                 msk = ZeroOf(ty) when mop = 0)            childcount: the same shape                           *)
(*            str  [fn, idx, op, val, hd, d]                 nodename: the same shape                             *)
(*            raw  [fn, idx, op, ty, val, hd, d]             (val = <<>>: no operand buffer)                      *)
(*            msg  [fn, idx, kids, dm]   (kids: <<>> or <<child filter>>; dm: <<>> or <<default sub-Message>>)     *)
(*            and or nand nor xor [kids]     min max [n, kids]    (n = NoLimit for MUSCLE_NO_LIMIT)                *)
(***************************************************************************************************************)
EXTENDS Integers, Sequences, FiniteSets, TLC

CONSTANT Wrong   \* a set of names of deliberately wrong readings; {} everywhere except in the Reach_* configurations
                 \* that show that each law can fail

T == {TRUE}
F == {FALSE}
Either == BOOLEAN
Neg(s) == {~b : b \in s}
NoLimit == -1                     \* MUSCLE_NO_LIMIT (0xFFFFFFFF) as logged / archived in an int32

IntTypes == {"i8", "i16", "i32", "i64"}
FltTypes == {"flt", "dbl"}
GeoTypes == {"pt", "rect"}
NumTypes == IntTypes \cup FltTypes \cup GeoTypes \cup {"bool"}
AllTypes == NumTypes \cup {"str", "raw", "msg"}

Min2(a, b) == IF a < b THEN a ELSE b
SetMin(S) == CHOOSE x \in S : \A y \in S : x <= y

----------------------------------------------------------------------------------------------------------------
(* numbers *)

\* three-way comparison: -1 less, 0 equal, 1 greater, 2 unordered (IEEE NaN)
CmpInt(a, b) == IF a < b THEN -1 ELSE IF a > b THEN 1 ELSE 0

\* floats are tokens; the order of the finite ones and the IEEE special cases are written out as a table
FTok == {"NaN", "-inf", "-1", "-0", "0", "0.5", "1", "2", "2.5", "+inf"}
FRank(t) == CASE t = "-inf" -> -1000 [] t = "-1" -> -2 [] t = "-0" -> 0 [] t = "0" -> 0 [] t = "0.5" -> 1
              [] t = "1" -> 2 [] t = "2" -> 4 [] t = "2.5" -> 5 [] t = "+inf" -> 1000
CmpFlt(a, b) == IF a = "NaN" \/ b = "NaN" THEN 2 ELSE CmpInt(FRank(a), FRank(b))   \* -0 = 0; inf = inf; NaN unordered
CmpBool(a, b) == CmpInt(IF a THEN 1 ELSE 0, IF b THEN 1 ELSE 0)

\* enum OP_EQUAL_TO .. OP_NOT_EQUAL_TO = 0 .. 5 ("represents '=='", '<', '>', '<=', '>=', '!=');
\* with an unordered pair every comparison is false except '!='.  (R2) a code outside the enumeration gives false
OpHolds(op, c) == CASE op = 0 -> c = 0
                    [] op = 1 -> c = -1
                    [] op = 2 -> c = 1
                    [] op = 3 -> c \in (IF "le_is_lt" \in Wrong THEN {-1} ELSE {-1, 0})
                    [] op = 4 -> c \in {0, 1}
                    [] op = 5 -> c # 0
                    [] OTHER -> FALSE

\* two's complement bit operations; operands are in -128 .. 127 (so the result is the same for every integer width)
U8(x) == IF x < 0 THEN x + 256 ELSE x
S8(u) == IF u >= 128 THEN u - 256 ELSE u
P2 == <<1, 2, 4, 8, 16, 32, 64, 128>>
Bit(u, i) == (u \div P2[i]) % 2
RECURSIVE BitFold(_, _, _, _)
BitFold(u, v, tt, i) == IF i > 8 THEN 0 ELSE P2[i] * tt[Bit(u, i) * 2 + Bit(v, i) + 1] + BitFold(u, v, tt, i + 1)
AndI(a, b) == S8(BitFold(U8(a), U8(b), <<0, 0, 0, 1>>, 1))
OrI(a, b)  == S8(BitFold(U8(a), U8(b), <<0, 1, 1, 1>>, 1))
XorI(a, b) == S8(BitFold(U8(a), U8(b), <<0, 1, 1, 0>>, 1))
NotI(a) == -a - 1
\* enum NQF_MASK_OP_NONE, AND, OR, XOR, NAND, NOR, XNOR = 0 .. 6: "Mask using a bitwise-... operator"
MaskInt(mop, x, k) == CASE mop = 0 -> x [] mop = 1 -> AndI(x, k) [] mop = 2 -> OrI(x, k) [] mop = 3 -> XorI(x, k)
                        [] mop = 4 -> NotI(AndI(x, k)) [] mop = 5 -> NotI(OrI(x, k)) [] mop = 6 -> NotI(XorI(x, k))
MaskBool(mop, x, k) == CASE mop = 0 -> x [] mop = 1 -> x /\ k [] mop = 2 -> x \/ k [] mop = 3 -> x # k
                         [] mop = 4 -> ~(x /\ k) [] mop = 5 -> ~(x \/ k) [] mop = 6 -> x = k

----------------------------------------------------------------------------------------------------------------
(* strings and byte sequences (sequences of small integers) *)

Lower(s) == [i \in DOMAIN s |-> IF s[i] \in 65..90 THEN s[i] + 32 ELSE s[i]]
CmpSeq(a, b) == LET n == Min2(Len(a), Len(b))
                    D == {i \in 1..n : a[i] # b[i]}
                IN IF D = {} THEN CmpInt(Len(a), Len(b)) ELSE LET i == SetMin(D) IN CmpInt(a[i], b[i])
StartsWith(s, p) == Len(p) <= Len(s) /\ SubSeq(s, 1, Len(p)) = p
EndsWith(s, p)   == Len(p) <= Len(s) /\ SubSeq(s, Len(s) - Len(p) + 1, Len(s)) = p
Contains(s, p)   == \E i \in 0..(Len(s) - Len(p)) : SubSeq(s, i + 1, i + Len(p)) = p

\* StringMatcher "simple" syntax ("similar to filename globbing in bash"), whole-string match: '*' any run of
\* characters, '?' any one character; only patterns made of letters, '*' and '?' are given a meaning here, every other
\* pattern is Either (C15 is the property about the full pattern syntax)
Star == 42
Quest == 63
Letters == (65..90) \cup (97..122)
PlainPattern(p) == \A i \in DOMAIN p : p[i] \in Letters \cup {Star, Quest}
RECURSIVE Glob(_, _)
Glob(p, s) == IF p = <<>> THEN s = <<>>
              ELSE IF Head(p) = Star THEN Glob(Tail(p), s) \/ (s # <<>> /\ Glob(p, Tail(s)))
              ELSE s # <<>> /\ (Head(p) = Quest \/ Head(p) = Head(s)) /\ Glob(Tail(p), Tail(s))
\* The EMPTY pattern is Either: SetPattern says "If (expression) is passed as an empty String, this StringMatcher will be set
\* back to its no-pattern/invalid state, in which Match() will not match any strings", globbing says it matches the empty
\* string; which of the two holds is C15's question (the code does the latter), here only agreement and safety are judged.
Wild(p, s) == IF p = <<>> THEN Either ELSE IF PlainPattern(p) THEN {Glob(p, s)} ELSE Either

\* enum StringQueryFilter::OP_*: 0..5 comparisons, 6 startswith, 7 endswith, 8 contains (IndexOf >= 0), 9 start-of,
\* 10 end-of, 11 substring-of ("inverse prefix / suffix / infix match"), 12..23 the same ignoring case, 24 simple wildcard,
\* 25 regex, 26 simple wildcard ignoring case, 27 regex ignoring case.  s = the string in the Message, v = the operand.
\* (R5) contains / substring-of with an EMPTY needle: Either.  (R6) raw regular expressions: Either.
RECURSIVE StrOp(_, _, _)
StrOp(op, s, v) ==
   CASE op \in 0..5   -> {OpHolds(op, CmpSeq(s, v))}
     [] op = 6        -> {StartsWith(s, v)}
     [] op = 7        -> {EndsWith(s, v)}
     [] op = 8        -> IF v = <<>> THEN Either ELSE {Contains(s, v)}
     [] op = 9        -> {StartsWith(v, s)}
     [] op = 10       -> {EndsWith(v, s)}
     [] op = 11       -> IF s = <<>> THEN Either ELSE {Contains(v, s)}
     [] op \in 12..23 -> StrOp(op - 12, Lower(s), Lower(v))
     [] op = 24       -> Wild(v, s)
     [] op = 26       -> Wild(Lower(v), Lower(s))
     [] op \in {25, 27} -> Either
     [] OTHER         -> F                              \* (R2)
\* enum RawDataQueryFilter::OP_*: 0..5 comparisons (bytes, lexicographic), 6 startswith .. 11 subset-of
RawOp(op, s, v) == IF op \in 0..11 THEN StrOp(op, s, v) ELSE F

----------------------------------------------------------------------------------------------------------------
(* Messages *)

FieldIdx(m, n) == LET S == {i \in DOMAIN m.fields : m.fields[i].n = n /\ ("lookup_first_field" \notin Wrong \/ i = 1)} IN IF S = {} THEN 0 ELSE SetMin(S)
\* (R3) a datum is present only if the field has exactly the wanted type code ("any" = B_ANY_TYPE accepts every type;
\* no numeric coercion) and at least idx+1 items
Present(m, fn, ty, idx) == LET i == FieldIdx(m, fn) IN
                           /\ i # 0
                           /\ (ty = "any" \/ m.fields[i].t = ty)
                           /\ idx < Len(m.fields[i].v)
Item(m, fn, idx) == m.fields[FieldIdx(m, fn)].v[idx + 1]
TypeOfField(m, fn) == m.fields[FieldIdx(m, fn)].t

\* the same Message up to the order of its fields (items of one type have one shape, so they may be compared with =)
RECURSIVE SameMsg(_, _)
SameMsg(a, b) == /\ a.what = b.what
                 /\ Len(a.fields) = Len(b.fields)
                 /\ \A i \in DOMAIN a.fields :
                       LET x == a.fields[i]
                           j == FieldIdx(b, x.n)
                       IN /\ j # 0
                          /\ b.fields[j].t = x.t
                          /\ IF x.t = "msg" THEN /\ Len(x.v) = Len(b.fields[j].v)
                                                 /\ \A k \in DOMAIN x.v : SameMsg(x.v[k], b.fields[j].v[k])
                             ELSE x.v = b.fields[j].v

----------------------------------------------------------------------------------------------------------------
(* what a filter accepts *)

ZeroOf(ty) == CASE ty \in IntTypes -> 0 [] ty = "bool" -> FALSE [] ty \in FltTypes -> "0" [] ty = "pt" -> <<0, 0>> [] ty = "rect" -> <<0, 0, -1, -1>>   \* Rect(): "upper left point (0,0), and lower right point (-1,-1)"

CmpNum(ty, a, b) == CASE ty \in IntTypes -> CmpInt(a, b) [] ty = "bool" -> CmpBool(a, b) [] ty \in FltTypes -> CmpFlt(a, b)

\* NumericQueryFilter<T>: "only returns true if the matched Message has the field item with the specified value in it"
\* (compared with the operator); assumed default: "if the specified item does not exist in the matched Message, this
\* QueryFilter will act as if the Message contained the specified assumedValue"; UnsetAssumedDefault: "Matches() will
\* simply always return false if the specified data item is not found"; SetMask: "the mask operation to perform on the
\* discovered data value before applying the OP_* test.  Note that mask operations are not defined for floats, doubles,
\* Points, or Rects" -> (R4) Either there, and for a mask-operation code outside the enumeration.
EvalNum(f, m) ==
   LET present == Present(m, f.fn, f.ty, f.idx)
       useDef  == f.hd /\ "num_default_ignored" \notin Wrong
   IN IF ~present /\ ~useDef THEN F
      ELSE LET x == IF present THEN Item(m, f.fn, f.idx) ELSE f.d IN
           IF f.mop # 0 /\ (f.ty \notin IntTypes \cup {"bool"} \/ f.mop \notin 0..6) THEN Either
           ELSE IF f.op \notin 0..5 THEN F                                                        \* (R2)
           ELSE IF f.ty \in GeoTypes THEN (IF f.op = 0 THEN {x = f.val} ELSE IF f.op = 5 THEN {x # f.val} ELSE Either)
           ELSE LET y == IF f.ty = "bool" THEN MaskBool(f.mop, x, f.msk)
                         ELSE IF f.ty \in IntTypes THEN MaskInt(f.mop, x, f.msk) ELSE x
                IN {OpHolds(f.op, CmpNum(f.ty, y, f.val))}

\* StringQueryFilter: same default rule; "matches on string field values"
EvalStr(f, m) ==
   LET present == Present(m, f.fn, "str", f.idx)
   IN IF ~present /\ ~f.hd THEN F
      ELSE StrOp(f.op, IF present THEN Item(m, f.fn, f.idx) ELSE f.d, f.val)

\* RawDataQueryFilter: "matches on raw data buffers", type code "B_ANY_TYPE, indicating that any type code is acceptable".
\* (R7) a NULL / empty operand never matches; (R8) the bytes of an item that is not of raw type are not specified by the
\* Message model: Either.  A zero-length assumed default acts like any other default here (the code deviates after an
\* archive round trip: known finding F22).
EvalRaw(f, m) ==
   LET present == Present(m, f.fn, f.ty, f.idx)
   IN IF ~present /\ ~f.hd THEN F
      ELSE IF f.val = <<>> THEN F
      ELSE IF present /\ TypeOfField(m, f.fn) # "raw" THEN Either
      ELSE RawOp(f.op, IF present THEN Item(m, f.fn, f.idx) ELSE f.d, f.val)

RECURSIVE Eval(_, _), Counts(_, _, _)
\* the possible numbers of matching children
Counts(kids, m, i) == IF i > Len(kids) THEN {0}
                      ELSE LET rest == Counts(kids, m, i + 1)
                               e == Eval(kids[i], m)
                           IN {c + (IF b THEN 1 ELSE 0) : c \in rest, b \in e}
\* MinimumThresholdQueryFilter: "matches iff more than (n) of its children match ... If this value is greater than the number
\* of child QueryFilters in our list, then it will be treated as if it was equal to (numKids-1)"; MaximumThreshold...: "iff no
\* more than (n) ... equal to or greater than the number of child QueryFilters ... (numKids-1)".  (R1) n >= number of children
\* is clamped to children-1 for both.
ULe(a, b) == b = NoLimit \/ (a # NoLimit /\ a <= b)       \* <= on uint32 values of which only MUSCLE_NO_LIMIT is large
Thr(n, kids) == IF n = NoLimit \/ (n >= Len(kids) /\ "thr_no_clamp" \notin Wrong) THEN Len(kids) - 1 ELSE n
Eval(f, m) ==
   \* "what codes greater than or equal to minWhat ... less than or equal to maxWhat" (what codes are unsigned: NoLimit is the largest)
   CASE f.k = "what"   -> {ULe(f.lo, m.what) /\ ULe(m.what, f.hi)}
     [] f.k = "exists" -> {Present(m, f.fn, f.ty, f.idx)}          \* "checks to see if the specified value exists"
     [] f.k = "num"    -> EvalNum(f, m)
     [] f.k = "str"    -> EvalStr(f, m)
     [] f.k = "raw"    -> EvalRaw(f, m)
     \* MessageQueryFilter: "matches iff the specified sub-Message exists in our target Message, and (optionally) our child
     \* filter can match that sub-Message (or alternatively our default-child-Message)"; no child filter: "any child Message will match"
     [] f.k = "msg"    -> LET present == Present(m, f.fn, "msg", f.idx) IN
                          IF ~present /\ f.dm = <<>> THEN F
                          ELSE IF f.kids = <<>> THEN T
                          ELSE Eval(f.kids[1], IF present THEN Item(m, f.fn, f.idx) ELSE f.dm[1])
     \* empty child lists, each from the constructor comment of the class: AND true, OR true, NAND / NOR / XOR false
     [] f.k = "and"    -> {c = Len(f.kids) : c \in Counts(f.kids, m, 1)}
     [] f.k = "or"     -> IF f.kids = <<>> THEN (IF "or_empty_false" \in Wrong THEN F ELSE T) ELSE {c > 0 : c \in Counts(f.kids, m, 1)}
     [] f.k = "nand"   -> IF f.kids = <<>> THEN F ELSE {IF "nand_is_nor" \in Wrong THEN c = 0 ELSE c < Len(f.kids) : c \in Counts(f.kids, m, 1)}
     [] f.k = "nor"    -> IF f.kids = <<>> THEN F ELSE {c = 0 : c \in Counts(f.kids, m, 1)}
     [] f.k = "xor"    -> {c % 2 = (IF "xor_even" \in Wrong THEN 0 ELSE 1) : c \in Counts(f.kids, m, 1)}   \* "matches only if an odd number of its children match"
     [] f.k = "min"    -> IF f.kids = <<>> THEN T ELSE {c > Thr(f.n, f.kids) : c \in Counts(f.kids, m, 1)}
     [] f.k = "max"    -> IF f.kids = <<>> THEN F ELSE {c <= Thr(f.n, f.kids) : c \in Counts(f.kids, m, 1)}
     [] f.k = "null"   -> F                                          \* (R9) a NULL child counts as non-matching
     \* NodeNameQueryFilter / ChildCountQueryFilter decide on the DataNode; the documentation does not say what happens when
     \* no DataNode is available (the harness has none): Either
     [] f.k \in {"nodename", "childcount"} -> Either

----------------------------------------------------------------------------------------------------------------
(* shape predicates over filter trees *)

IsCombinator(f) == f.k \in {"and", "or", "nand", "nor", "xor", "min", "max"}
RECURSIVE HasNull(_)
HasNull(f) == \/ f.k = "null"
              \/ (IsCombinator(f) \/ f.k = "msg") /\ \E i \in DOMAIN f.kids : HasNull(f.kids[i])

----------------------------------------------------------------------------------------------------------------
(* the archived form: a Message (what code selects the class; fields fn idx op mop val msk type kid defmsg min max def).  *)
(* It mirrors SaveToArchive()/SetFromArchive() of the classes - this part is about the wire form, it is not documented in  *)
(* the header; the harness logs the real archive and a difference is reported as drift, not as a violation.               *)

QFBase == 1902537776    \* 'qfl0' = QUERY_FILTER_TYPE_WHATCODE; the other classes follow in the order of the enumeration
KindCode == [what |-> 0, exists |-> 1, bool |-> 2, dbl |-> 3, flt |-> 4, i64 |-> 5, i32 |-> 6, i16 |-> 7, i8 |-> 8, pt |-> 9, rect |-> 10,
             str |-> 11, msg |-> 12, raw |-> 13, max |-> 14, min |-> 15, xor |-> 16, childcount |-> 17, nodename |-> 18]
CodeType == <<"bool", "dbl", "flt", "i64", "i32", "i16", "i8", "pt", "rect">>     \* codes 2 .. 10
\* B_*_TYPE codes that appear in "type" fields
AnyCode == 1095653716   \* 'ANYT'
TypeCode == [any |-> AnyCode, bool |-> 1112493900, dbl |-> 1145195589, flt |-> 1179406164, i64 |-> 1280069191, i32 |-> 1280265799,
             i16 |-> 1397248596, i8 |-> 1113150533, msg |-> 1297303367, pt |-> 1112559188, rect |-> 1380270932, str |-> 1129534546, raw |-> 1380013908]
TypeTags == {"any", "bool", "dbl", "flt", "i64", "i32", "i16", "i8", "msg", "pt", "rect", "str", "raw"}
TagOfCode(c) == LET S == {t \in TypeTags : TypeCode[t] = c} IN IF S = {} THEN "?" ELSE CHOOSE t \in S : TRUE

\* field names of the model are TLA+ strings; inside an archive the name travels as a string item (character codes)
NameCodes(s) == CASE s = "f" -> <<102>> [] s = "g" -> <<103>> [] s = "h" -> <<104>> [] s = "" -> <<>>
NameOf(c) == CASE c = <<102>> -> "f" [] c = <<103>> -> "g" [] c = <<104>> -> "h" [] c = <<>> -> "" [] OTHER -> "?"
Fld(n, t, v) == [n |-> n, t |-> t, v |-> v]
CI32(n, x, dflt) == IF x = dflt THEN <<>> ELSE <<Fld(n, "i32", <<x>>)>>     \* Message::CAddInt32: only when different from the default
CI8(n, x) == IF x = 0 THEN <<>> ELSE <<Fld(n, "i8", <<x>>)>>
Opt(b, x) == IF b THEN <<x>> ELSE <<>>
ValuePart(f) == <<Fld("fn", "str", <<NameCodes(f.fn)>>)>> \o (IF "archive_drops_idx" \in Wrong THEN <<>> ELSE CI32("idx", f.idx, 0))

RECURSIVE Archive(_), ArchiveKids(_, _)
ArchiveKids(kids, i) == IF i > Len(kids) THEN <<>>
                        ELSE (IF kids[i].k = "null" THEN <<>> ELSE <<Archive(kids[i])>>) \o ArchiveKids(kids, i + 1)
KidField(kids) == LET a == ArchiveKids(kids, 1) IN IF a = <<>> THEN <<>> ELSE <<Fld("kid", "msg", a)>>
Archive(f) ==
   CASE f.k = "what"   -> [what |-> QFBase, fields |-> CI32("min", f.lo, 0) \o CI32("max", f.hi, f.lo)]
     [] f.k = "exists" -> [what |-> QFBase + 1, fields |-> ValuePart(f) \o CI32("type", TypeCode[f.ty], AnyCode)]
     [] f.k \in {"num", "childcount"} ->
                          [what |-> QFBase + (IF f.k = "num" THEN KindCode[f.ty] ELSE 17),
                           fields |-> ValuePart(f) \o CI8("op", S8(f.op)) \o CI8("mop", S8(f.mop))
                                      \o <<Fld("val", f.ty, <<f.val>> \o Opt(f.hd, f.d)), Fld("msk", f.ty, <<f.msk>>)>>]
     [] f.k \in {"str", "nodename"} ->
                          [what |-> QFBase + (IF f.k = "str" THEN 11 ELSE 18),
                           fields |-> ValuePart(f) \o <<Fld("val", "str", <<f.val>> \o Opt(f.hd, f.d)), Fld("op", "i8", <<S8(f.op)>>)>>]
     [] f.k = "raw"    -> [what |-> QFBase + 13,
                           fields |-> ValuePart(f) \o <<Fld("op", "i8", <<S8(f.op)>>)>> \o CI32("type", TypeCode[f.ty], AnyCode)
                                      \o Opt(f.val # <<>>, Fld("val", "raw", <<f.val>>)) \o Opt(f.hd, Fld("def", "raw", <<f.d>>))]
     [] f.k = "msg"    -> [what |-> QFBase + 12,
                           fields |-> ValuePart(f) \o KidField(f.kids) \o Opt(f.dm # <<>>, Fld("defmsg", "msg", f.dm))]
     [] f.k \in {"min", "and", "or"} ->
                          [what |-> QFBase + 15,
                           fields |-> KidField(f.kids) \o CI32("min", IF f.k = "min" THEN f.n ELSE IF f.k = "and" THEN NoLimit ELSE 0, NoLimit)]
     [] f.k \in {"max", "nand", "nor"} ->
                          [what |-> QFBase + 14,
                           fields |-> KidField(f.kids) \o CI32("max", IF f.k = "max" THEN f.n ELSE IF f.k = "nand" THEN NoLimit ELSE 0, 0)]
     [] f.k = "xor"    -> [what |-> QFBase + 16, fields |-> KidField(f.kids)]

\* reading an archive back (only the shapes Archive() produces are given a meaning; hostile ones are for the real code)
Has(a, n, t) == Present(a, n, t, 0)
Get(a, n, t, dflt) == IF Has(a, n, t) THEN Item(a, n, 0) ELSE dflt
Items(a, n, t) == IF FieldIdx(a, n) # 0 /\ TypeOfField(a, n) = t THEN a.fields[FieldIdx(a, n)].v ELSE <<>>
RECURSIVE FromArchive(_)
FromArchive(a) ==
   LET c   == a.what - QFBase
       fn  == NameOf(Get(a, "fn", "str", <<>>))
       idx == Get(a, "idx", "i32", 0)
       kids == LET ks == Items(a, "kid", "msg") IN [i \in DOMAIN ks |-> FromArchive(ks[i])]
   IN CASE c = 0  -> LET lo == Get(a, "min", "i32", 0) IN [k |-> "what", lo |-> lo, hi |-> Get(a, "max", "i32", lo)]
        [] c = 1  -> [k |-> "exists", fn |-> fn, idx |-> idx, ty |-> TagOfCode(Get(a, "type", "i32", AnyCode))]
        [] c \in 2..10 \cup {17} ->
                     LET ty == IF c = 17 THEN "i32" ELSE CodeType[c - 1]
                         vs == Items(a, "val", ty)
                     IN [k |-> IF c = 17 THEN "childcount" ELSE "num", ty |-> ty, fn |-> fn, idx |-> idx,
                         op |-> U8(Get(a, "op", "i8", 0)), mop |-> U8(Get(a, "mop", "i8", 0)),
                         val |-> vs[1], msk |-> Get(a, "msk", ty, ZeroOf(ty)),
                         hd |-> Len(vs) > 1, d |-> IF Len(vs) > 1 THEN vs[2] ELSE ZeroOf(ty)]
        [] c \in {11, 18} ->
                     LET vs == Items(a, "val", "str")
                     IN [k |-> IF c = 11 THEN "str" ELSE "nodename", fn |-> fn, idx |-> idx, op |-> U8(Get(a, "op", "i8", 0)),
                         val |-> vs[1], hd |-> Len(vs) > 1, d |-> IF Len(vs) > 1 THEN vs[2] ELSE <<>>]
        [] c = 13 -> [k |-> "raw", fn |-> fn, idx |-> idx, op |-> U8(Get(a, "op", "i8", 0)), ty |-> TagOfCode(Get(a, "type", "i32", AnyCode)),
                      val |-> Get(a, "val", "raw", <<>>), hd |-> Has(a, "def", "raw"), d |-> Get(a, "def", "raw", <<>>)]
        [] c = 12 -> [k |-> "msg", fn |-> fn, idx |-> idx, kids |-> SubSeq(kids, 1, Min2(1, Len(kids))), dm |-> SubSeq(Items(a, "defmsg", "msg"), 1, Min2(1, Len(Items(a, "defmsg", "msg"))))]
        [] c = 15 -> [k |-> "min", n |-> Get(a, "min", "i32", NoLimit), kids |-> kids]
        [] c = 14 -> [k |-> "max", n |-> Get(a, "max", "i32", 0), kids |-> kids]
        [] c = 16 -> [k |-> "xor", kids |-> kids]

\* the five convenience classes are the threshold classes with a fixed n (their constructors say so); an archive does not
\* remember which spelling was used, and NULL children are not archived
RECURSIVE Canon(_)
CanonKids(f) == LET ks == SelectSeq(f.kids, LAMBDA x : x.k # "null") IN [i \in DOMAIN ks |-> Canon(ks[i])]
Canon(f) == CASE f.k = "and"  -> [k |-> "min", n |-> NoLimit, kids |-> CanonKids(f)]
              [] f.k = "or"   -> [k |-> "min", n |-> 0, kids |-> CanonKids(f)]
              [] f.k = "nand" -> [k |-> "max", n |-> NoLimit, kids |-> CanonKids(f)]
              [] f.k = "nor"  -> [k |-> "max", n |-> 0, kids |-> CanonKids(f)]
              [] f.k \in {"min", "max", "xor", "msg"} -> [f EXCEPT !.kids = CanonKids(f)]
              [] OTHER -> f
=============================================================================
