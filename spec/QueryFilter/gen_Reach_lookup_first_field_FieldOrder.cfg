SPECIFICATION Spec
CONSTANTS
  Wrong = {"lookup_first_field"}
  MaxDepth = 1
  Size = "quick"
INVARIANTS FieldOrder
