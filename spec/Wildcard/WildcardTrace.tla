---------------------------- MODULE WildcardTrace ----------------------------
(***************************************************************************)
(* Binding of Wildcard.tla to the real code (property C15).                  *)
(* harness/wc.cpp wrote, for every pattern string it enumerated, what the    *)
(* real StringMatcher / EscapeRegexTokens / RemoveEscapeChars answered; one  *)
(* TLC state per recorded line, invariant LineOK = "every recorded answer    *)
(* is one the documentation allows".  The file is sharded over several TLC   *)
(* processes (initial states are computed on one thread).                    *)
(*                                                                           *)
(* Line 1: {"subjects": [[codes], ...]}.  Other lines: p = the string;       *)
(* st = SetPattern succeeded; m + ng = Match() per subject (indices of the   *)
(* subjects matched if ng = 0, not matched if ng = 1); u = IsPatternUnique;  *)
(* v = IsPatternListOfUniqueValues; c = CanWildcardStringMatchMultipleValues;*)
(* h = HasRegexTokens; e = EscapeRegexTokens(p); r = RemoveEscapeChars(p);   *)
(* es = the real StringMatcher(e) matches p; eo = the subjects other than p  *)
(* that it matches; ru / cp = a brand-new / a copy-constructed StringMatcher *)
(* answers like the long-lived, recycled one the answers were taken from;    *)
(* tag = name of the known finding whose directed case the line is, or "".   *)
(***************************************************************************)
EXTENDS Wildcard, TLC, IOUtils, Json

Log  == ndJsonDeserialize(IOEnv.TRACE)
Subj == Log[1].subjects
NS   == Len(Subj)

VARIABLE i
Init == i \in 2..Len(Log)
Next == UNCHANGED i
Spec == Init /\ [][Next]_i

\* the answers about p as a pattern are judged iff the documented syntax gives p a meaning
Judged(top) == top.ok /\ top.kind \in {"glob", "range"}

\* ---- one operator per recorded answer; TRUE = allowed by the documentation
Observed(ln, mset, k) == (k \in mset) # (ln.ng = 1)

OK_m(ln, o, mset) == \A k \in 1..NS : o[k] = "E" \/ ((o[k] = "T") <=> Observed(ln, mset, k))     \* o[k] = the oracle's answer for subject k
OK_st(ln) == ln.st = 1                                   \* a well-formed pattern is parsable

\* IsPatternUnique: plain text must be unique; "unique" promises that the hash lookup of RemoveEscapeChars(p) finds exactly what Match() accepts
UniqueSound(ln, top, M) == /\ top.kind = "glob" /\ ~top.neg
                           /\ LET r == RemoveEscapes(ln.p) IN (\A k \in M : Subj[k] = r) /\ MatchTop(top, r) = "T"
OK_u(ln, top, M) == IF SurelyPlainTop(top) THEN ln.u = 1 ELSE (ln.u = 1 => UniqueSound(ln, top, M))

\* IsPatternListOfUniqueValues: two or more plain items must be recognised (a single item: the comment says "one or more", IsPatternUnique covers it: either);
\* "list of unique values" promises that the strings matched are exactly the comma-separated items, unescaped
PlainList(ln, top) == /\ top.kind = "glob" /\ ~top.neg /\ Len(top.alts) >= 2
                      /\ \A n \in 1..Len(top.alts) : SurelyPlainAtoms(top.alts[n])
                      /\ Len(top.alts) = Len(SplitUnescaped(ln.p, 1, <<>>))
UVSound(ln, top, M) == /\ top.kind = "glob" /\ ~top.neg
                       /\ LET items == UVItems(ln.p) IN (\A k \in 1..NS : (k \in M) <=> (Subj[k] \in items)) /\ (\A it \in items : MatchTop(top, it) = "T")
OK_v(ln, top, M) == IF PlainList(ln, top) THEN ln.v = 1 ELSE (ln.v = 1 => UVSound(ln, top, M))

\* "yes whenever two different strings match"; plain text cannot match several
OK_c(ln, top, M) == (Cardinality(M) >= 2 => ln.c = 1) /\ (SurelyPlainTop(top) => ln.c = 0)

\* ---- answers about p as a plain string (judged for every line)
DocSpecial == {cStar, cQm, cLB, cRB, cBsl, cComma, cLP, cRP, cBar}
OK_h(ln) == LET p == ln.p IN
            /\ ((\E k \in 1..Len(p) : p[k] \in DocSpecial) \/ (p # <<>> /\ p[1] \in {cTilde, cLT})) => ln.h = 1
            /\ (\A k \in 1..Len(p) : IsAlnum(p[k])) => ln.h = 0
\* judged where the two readings of the comment agree, and for plain-text patterns (the unescaped pattern is the key of the
\* hash lookup that replaces Match() for a unique pattern; "the opposite of EscapeRegexTokens()": it must be the string denoted)
OK_r(ln) == LET a == RemoveEscapes(ln.p) IN (a = RemoveEscapesLiteral(ln.p) \/ LiteralOnly(ln.p)) => ln.r = a
\* the escaped string is the string with backslashes inserted, and as a pattern it is plain text (so, by the laws
\* L_Unique / L_Escape model-checked in WildcardLaws.tla, it matches that string and no other)
OK_e(ln) == IsEscapingOf(ln.e, ln.p) /\ (ln.p # <<>> => LiteralOnly(ln.e))

\* C15: "escaping a string with the library's escape function yields a pattern that matches that string and no other": end to end on the code
OK_es(ln) == ln.p # <<>> => (ln.es = 1 /\ ln.eo = <<>>)
\* SetPattern: "set a new pattern ... to use in future Match() calls": the answers depend on the last pattern set, not on the object's history
OK_ru(ln) == ln.st = 1 => ln.ru = 1
OK_cp(ln) == ln.st = 1 => ln.cp = 1

KFp(p) == ({"F9"} \cap (IF F9(p) THEN Deviations ELSE {})) \cup ({"F10"} \cap (IF F10(p) THEN Deviations ELSE {}))
Count(reg) == TLCSet(reg, TLCGet(reg) + 1)
Report(n, ln, bad, unexcused, kf) == PrintT("@@" \o ToJson([i |-> n, k |-> ln.k, p |-> ln.p, bad |-> bad, unexcused |-> unexcused, kf |-> kf, tag |-> ln.tag]))

\* ---- SegmentedStringMatcher lines (k = "s"): p, hard (separator listed twice), st, u, ru, m0 + ng0 = Match(subject, FALSE), m1 + ng1 = Match(subject, TRUE)
SegSubj == Log[1].segsubjects
NSS     == Len(SegSubj)
SubTok  == [h \in BOOLEAN |-> [j \in 1..NSS |-> SegTokens(SegSubj[j], cSlash, h)]]          \* computed once per process
SubDef  == [h \in BOOLEAN |-> [j \in 1..NSS |-> SegDefinite(SegSubj[j], cSlash, h)]]
TokSet  == UNION {{SubTok[h][j][n] : n \in 1..Len(SubTok[h][j])} : h \in BOOLEAN, j \in 1..NSS}
SegObserved(ng, mset, j) == (j \in mset) # (ng = 1)
BadSeg(ln) ==
  LET p == ln.p  hard == ln.hard = 1
      segs == SegOfPattern(p, cSlash, hard)
      tops == [n \in 1..Len(segs) |-> ParseTop(segs[n])]
      tm   == [n \in 1..Len(segs) |-> [t \in TokSet |-> MatchTop(tops[n], t)]]            \* every segment on every token, once
      \* the oracle SegMatch3 of Wildcard.tla, with its per-segment answers looked up in tm
      O(j, pf) == IF ~SubDef[hard][j] THEN "E"
                  ELSE LET toks == SubTok[hard][j] IN SegCombine(SegNeg(p), Len(segs), Len(toks), pf, [n \in 1..Len(segs) |-> IF n <= Len(toks) THEN tm[n][toks[n]] ELSE "F"])
      m0 == {ln.m0[y] : y \in 1..Len(ln.m0)}  m1 == {ln.m1[y] : y \in 1..Len(ln.m1)}
      o0 == [j \in 1..NSS |-> O(j, FALSE)]  o1 == [j \in 1..NSS |-> O(j, TRUE)]
      ok0 == \A j \in 1..NSS : o0[j] = "E" \/ ((o0[j] = "T") <=> SegObserved(ln.ng0, m0, j))
      ok1 == \A j \in 1..NSS : o1[j] = "E" \/ ((o1[j] = "T") <=> SegObserved(ln.ng1, m1, j))
      \* IsPatternUnique: "true iff this pattern specifies exactly one possible string (ie the pattern is just plain old text ...)": plain text must be
      \* unique; "unique" must not be claimed when subjects with two different token sequences match (strings that differ only in how the
      \* separators are written - a//b for a/b - are the same sequence of segments: nothing is required about them)
      MT == {SubTok[hard][j] : j \in {y \in 1..NSS : o0[y] = "T"}}
      plain == ~SegNeg(p) /\ \A n \in 1..Len(segs) : SurelyPlainTop(tops[n])
      oku == IF plain THEN ln.u = 1 ELSE (ln.u = 1 => (~SegNeg(p) /\ Cardinality(MT) <= 1))
  IN IF ~SegJudged(p, cSlash, hard) THEN {}
     ELSE (IF ok0 THEN {} ELSE {"m0"}) \cup (IF ok1 THEN {} ELSE {"m1"}) \cup (IF ln.st = 1 THEN {} ELSE {"st"}) \cup (IF oku THEN {} ELSE {"u"})
SegLineOK(ln) ==
  LET kf  == KFp(ln.p)
      bp  == IF kf = {} THEN BadSeg(ln) ELSE {}
      bad == bp \cup (IF ln.st = 1 /\ ln.ru # 1 THEN {"ru"} ELSE {})
  IN /\ Count(1)
     /\ IF ~SegJudged(ln.p, cSlash, ln.hard = 1) THEN Count(3) ELSE IF kf # {} THEN Count(4) ELSE (Count(2) /\ TLCSet(6, TLCGet(6) + 2 * NSS))
     /\ (bad # {} => (Count(7) /\ Report(i, ln, bad, bad, kf)))
     /\ bad = {}

\* ---- a line
KF(ln) == KFp(ln.p)

BadPattern(ln) ==      \* names of the recorded answers about p as a pattern that the documentation does not allow
  LET top  == ParseTop(ln.p)
      mset == {ln.m[x] : x \in 1..Len(ln.m)}
      o    == [k \in 1..NS |-> MatchTop(top, Subj[k])]
      M    == {k \in 1..NS : o[k] = "T"}
  IN IF ~Judged(top) THEN {}
     ELSE (IF OK_m(ln, o, mset) THEN {} ELSE {"m"}) \cup (IF OK_st(ln) THEN {} ELSE {"st"}) \cup (IF OK_u(ln, top, M) THEN {} ELSE {"u"})
          \cup (IF OK_v(ln, top, M) THEN {} ELSE {"v"}) \cup (IF OK_c(ln, top, M) THEN {} ELSE {"c"})
BadString(ln) == (IF OK_h(ln) THEN {} ELSE {"h"}) \cup (IF OK_r(ln) THEN {} ELSE {"r"}) \cup (IF OK_ru(ln) THEN {} ELSE {"ru"}) \cup (IF OK_cp(ln) THEN {} ELSE {"cp"})
BadEscape(ln) == (IF OK_e(ln) THEN {} ELSE {"e"}) \cup (IF OK_es(ln) THEN {} ELSE {"es"})


\* registers (one TLC worker per process): 1 lines, 2 judged as patterns, 3 not judged: outside the documented syntax,
\* 4 not judged: F9 / F10 predicate, 5 escape not judged: F11 predicate, 6 subject evaluations, 7 lines with a disagreement
LineOK == IF Log[i].k = "s" THEN SegLineOK(Log[i]) ELSE
  LET ln  == Log[i]
      kf  == KF(ln)
      kfe == IF F11(ln.p) THEN {"F11"} \cap Deviations ELSE {}
      top == ParseTop(ln.p)
      directed == ln.tag # ""
      \* the pattern answers of a line inside an open finding's predicate are evaluated only for the directed case of the finding
      bp  == IF kf = {} \/ directed THEN BadPattern(ln) ELSE {}
      be  == IF kfe = {} \/ directed THEN BadEscape(ln) ELSE {}
      bs  == BadString(ln)
      excused == (IF kf # {} THEN bp ELSE {}) \cup (IF kfe # {} THEN be ELSE {})
      bad == bp \cup be \cup bs
  IN /\ Count(1)
     /\ IF ~Judged(top) THEN Count(3) ELSE IF kf # {} THEN Count(4) ELSE (Count(2) /\ TLCSet(6, TLCGet(6) + NS))
     /\ (kfe # {} => Count(5))
     /\ (bad # {} => (Count(7) /\ Report(i, ln, bad, bad \ excused, kf \cup kfe)))
     /\ bad \subseteq excused

ZeroRegs == \A k \in 1..7 : TLCSet(k, 0)
ASSUME ZeroRegs
Summary == PrintT("@@" \o ToJson([summary |-> TRUE, lines |-> TLCGet(1), judged |-> TLCGet(2), unjudged_syntax |-> TLCGet(3), unjudged_known |-> TLCGet(4),
                                   escape_unjudged_known |-> TLCGet(5), evaluations |-> TLCGet(6), disagreeing_lines |-> TLCGet(7), subjects |-> NS]))
=============================================================================
