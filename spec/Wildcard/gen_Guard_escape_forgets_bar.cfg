SPECIFICATION Spec
CONSTANTS
  Deviations = {}
  Wrong = {"escape_forgets_bar"}
  PatAlphabet = {97, 98, 49, 50, 42, 63, 91, 93, 45, 40, 124, 41, 44, 126, 60, 62, 92, 46, 43, 94, 96}
  SubjAlphabet = {97, 98, 49, 50, 44, 42, 92, 46}
  MaxPat = 3
  MaxStr = 2
  MaxSubj = 2
  NShards = 1
  Shard = 0
INVARIANTS L_Escape
