---------------------------- MODULE WildcardLaws ----------------------------
(***************************************************************************)
(* Laws of the oracle Wildcard.tla, model-checked on the oracle itself so    *)
(* that it is neither vacuous nor wrong by construction (property C15):      *)
(*   L_Escape    Matches(Escape(s), t) <=> t = s                             *)
(*   L_RoundTrip RemoveEscapes(Escape(s)) = s, Escape(s) is s with           *)
(*               backslashes inserted and is plain text as a pattern         *)
(*   L_Unique    IsUnique(p) ("cannot match multiple") => the strings        *)
(*               matched are exactly {RemoveEscapes(p)}: at most one         *)
(*   L_UVList    IsUVList(p) => the strings matched are exactly the          *)
(*               comma-separated items, unescaped                            *)
(* and the denotational reading of the documented syntax, which the          *)
(* position-set matcher of Wildcard.tla must satisfy:                        *)
(*   L_Atoms  c / \c match exactly "c"; ? exactly the one-character strings; *)
(*            * everything                                                   *)
(*   L_Concat L(p1 p2) = L(p1) . L(p2)     L_Alt  L(p1,p2) = L(p1) u L(p2)   *)
(*   L_Group  L((p)) = L(p)                L_Neg  L(~p) = complement         *)
(*   L_Class  [..] / [^..] match exactly the one-character strings in / not  *)
(*            in the listed characters and code ranges                       *)
(*   L_Range  <..> on canonical decimal strings = integer comparison; never  *)
(*            matches a string that does not look numeric                    *)
(* One state per string of the universe; `kind` says what the string is.     *)
(***************************************************************************)
EXTENDS Wildcard, TLC, Json

CONSTANTS PatAlphabet,    \* character codes of the pattern / escape-input universe
          SubjAlphabet,   \* character codes of the subject universe
          MaxPat,         \* patterns: every string over PatAlphabet up to this length
          MaxStr,         \* escape inputs: every string over PatAlphabet up to this length
          MaxSubj,        \* subjects: every string over SubjAlphabet up to this length
          NShards, Shard  \* this TLC process takes the patterns whose (length + first character) mod NShards = Shard; the small universes go to shard 0

Strs(A, n) == UNION {[1..m -> A] : m \in 0..n}
U == Strs(SubjAlphabet, MaxSubj)

ClassChars == {97, 98, 49, 50, cTilde, cLT, cCaret}
ClassPats == {<<cLB, c, cRB>> : c \in ClassChars \ {cCaret}} \cup {<<cLB, cCaret, c, cRB>> : c \in ClassChars}
             \cup {<<cLB, c, d, cRB>> : c \in ClassChars \ {cCaret}, d \in ClassChars}
             \cup {<<cLB, x[1], cDash, x[2], cRB>> : x \in {y \in ClassChars \X ClassChars : y[1] <= y[2] /\ y[1] # cCaret}}
             \cup {<<cLB, cCaret, x[1], cDash, x[2], cRB>> : x \in {y \in ClassChars \X ClassChars : y[1] <= y[2]}}
             \cup {<<cLB, c, cDash, cRB>> : c \in ClassChars \ {cCaret}} \cup {<<cLB, cDash, c, cRB>> : c \in ClassChars}
Nums == {<<49>>, <<50>>, <<49, 49>>, <<49, 50>>, <<50, 49>>, <<50, 50>>, <<49, 49, 49>>, <<50, 49, 50>>}
Bound == Nums \cup {<<>>}
Clauses == {n : n \in Nums} \cup {x[1] \o <<cDash>> \o x[2] : x \in Bound \X Bound}
RangePats == {<<cLT>> \o c \o <<cGT>> : c \in Clauses} \cup {<<cLT>> \o x[1] \o <<cComma>> \o x[2] \o <<cGT>> : x \in Nums \X {<<49, 50, cDash, 50, 49>>, <<cDash, 49>>, <<50, 50, cDash>>}}
NumSubjects == Strs({49, 50}, 3) \ {<<>>}
Small == {<<97>>, <<98>>, <<cStar>>, <<cQm>>, <<97, 98>>}
GroupPats == {<<cLP>> \o y[1] \o <<y[2]>> \o y[3] \o <<cRP>> \o y[4] : y \in Small \X {cBar, cComma} \X Small \X (Small \cup {<<>>})}   \* (a|b)c: longer than MaxPat

\* segmented patterns: 1..3 clauses joined by '/', optionally negated; subjects: 0..4 tokens joined by '/'
RECURSIVE Join(_)
Join(ts) == IF ts = <<>> THEN <<>> ELSE IF Len(ts) = 1 THEN ts[1] ELSE ts[1] \o <<cSlash>> \o Join(Tail(ts))
SegClauses == {<<cStar>>, <<97>>, <<98>>, <<97, cStar>>, <<cQm>>, <<97, cComma, 98>>}
SegToks == {<<97>>, <<98>>}
SegBodies == {Join(q) : q \in UNION {[1..m -> SegClauses] : m \in 1..3}}
SegPats == SegBodies \cup {<<cTilde>> \o b : b \in SegBodies}
SegSubs == {Join(q) : q \in UNION {[1..m -> SegToks] : m \in 0..4}}

VARIABLES kind, x
Mine(y) == (Len(y) + (IF y = <<>> THEN 0 ELSE y[1])) % NShards = Shard
Init == \/ kind = "s" /\ Shard = 0 /\ x \in Strs(PatAlphabet, MaxStr)
        \/ kind = "p" /\ x \in {y \in Strs(PatAlphabet, MaxPat) : Mine(y)}
        \/ kind = "c" /\ Shard = 0 /\ x \in ClassPats
        \/ kind = "r" /\ Shard = 0 /\ x \in RangePats
        \/ kind = "g" /\ Shard = 0 /\ x \in GroupPats
        \/ kind = "q" /\ Shard = NShards - 1 /\ x \in SegPats
Next == UNCHANGED <<kind, x>>
Spec == Init /\ [][Next]_<<kind, x>>

Hit(reg) == TLCSet(reg, TLCGet(reg) + 1)                  \* vacuity counters: how often the antecedent of a law was true
Glob(q)   == LET t == ParseTop(q) IN t.ok /\ t.kind = "glob" /\ ~t.neg
Single(q) == LET t == ParseTop(q) IN t.ok /\ t.kind = "glob" /\ ~t.neg /\ Len(t.alts) = 1

L_Escape == (kind = "s" /\ x # <<>>) => (Hit(1) /\ \A t \in U \cup {x} : Matches(Escape(x), t) <=> (t = x))
L_RoundTrip == kind = "s" => (RemoveEscapes(Escape(x)) = x /\ IsEscapingOf(Escape(x), x) /\ (x # <<>> => LiteralOnly(Escape(x))))
L_Unique == (kind \in {"p", "g"} /\ IsUnique(x)) => (Hit(2) /\ LET r == RemoveEscapes(x) IN \A t \in U \cup {r} : Matches(x, t) <=> (t = r))
L_UVList == (kind \in {"p", "g"} /\ IsUVList(x)) => (Hit(3) /\ LET items == UVItems(x) IN \A t \in U \cup items : Matches(x, t) <=> (t \in items))

Ordinary(c) == c \notin SpecialAnywhere /\ c \notin SpecialIfFirst
L_Atoms == kind = "p" =>
   /\ (Len(x) = 1 /\ Ordinary(x[1])) => (Hit(4) /\ \A t \in U \cup {x} : Matches(x, t) <=> (t = x))
   /\ (Len(x) = 2 /\ x[1] = cBsl) => \A t \in U \cup {<<x[2]>>} : Matches(x, t) <=> (t = <<x[2]>>)
   /\ x = <<cQm>> => \A t \in U : Matches(x, t) <=> (Len(t) = 1)
   /\ x = <<cStar>> => \A t \in U : Matches(x, t)
L_Concat == kind \in {"p", "g"} => \A k \in 1..(Len(x) - 1) :
   LET p1 == SubSeq(x, 1, k)  p2 == SubSeq(x, k + 1, Len(x)) IN
   (Single(p1) /\ Single(p2)) => (Hit(5) /\ \A t \in U : Matches(x, t) <=> \E j \in 0..Len(t) : Matches(p1, SubSeq(t, 1, j)) /\ Matches(p2, SubSeq(t, j + 1, Len(t))))
L_Alt == kind \in {"p", "g"} => \A k \in 2..(Len(x) - 1) :
   LET p1 == SubSeq(x, 1, k - 1)  p2 == SubSeq(x, k + 1, Len(x)) IN
   (x[k] \in {cComma, cBar} /\ Glob(p1) /\ Glob(p2)) => (Hit(6) /\ \A t \in U : Matches(x, t) <=> (Matches(p1, t) \/ Matches(p2, t)))
L_Group == (kind \in {"p", "g"} /\ Len(x) >= 3 /\ x[1] = cLP /\ x[Len(x)] = cRP /\ Glob(SubSeq(x, 2, Len(x) - 1))) =>
   (Hit(7) /\ \A t \in U : Matches(x, t) <=> Matches(SubSeq(x, 2, Len(x) - 1), t))
L_Neg == (kind \in {"p", "r", "g"} /\ WellFormed(x) /\ x[1] # cTilde) => (Hit(8) /\ \A t \in U \cup NumSubjects : Match3(<<cTilde>> \o x, t) = Not3(Match3(x, t)) /\ (Match3(x, t) # "E" => (Matches(<<cTilde>> \o x, t) <=> ~Matches(x, t))))

\* class membership read directly off the text of the class
Member(body, c) ==
   IF Len(body) = 3 /\ body[2] = cDash THEN body[1] <= c /\ c <= body[3]
   ELSE \E k \in 1..Len(body) : body[k] = c
L_Class == kind = "c" =>
   LET neg  == x[2] = cCaret
       body == SubSeq(x, IF neg THEN 3 ELSE 2, Len(x) - 1)
   IN Hit(9) /\ \A t \in U : Matches(x, t) <=> (Len(t) = 1 /\ (Member(body, t[1]) # neg))

RECURSIVE Val(_)
Val(d) == IF d = <<>> THEN 0 ELSE 10 * Val(SubSeq(d, 1, Len(d) - 1)) + (d[Len(d)] - 48)
InClause(cl, n) == LET d == FirstAt(cl, cDash, 1) IN
   IF d = 0 THEN Val(cl) = n
   ELSE (d = 1 \/ Val(SubSeq(cl, 1, d - 1)) <= n) /\ (d = Len(cl) \/ n <= Val(SubSeq(cl, d + 1, Len(cl))))
Proper(cl) == LET d == FirstAt(cl, cDash, 1) IN d = 0 \/ d = 1 \/ d = Len(cl) \/ Val(SubSeq(cl, 1, d - 1)) <= Val(SubSeq(cl, d + 1, Len(cl)))
L_Range == kind = "r" =>
   LET cls == SplitAt(SubSeq(x, 2, Len(x) - 1), cComma) IN
   IF \A k \in 1..Len(cls) : Proper(cls[k])
   THEN /\ Hit(10) /\ WellFormed(x)
        /\ \A t \in NumSubjects : Matches(x, t) <=> \E k \in 1..Len(cls) : InClause(cls[k], Val(t))
        /\ \A t \in U : (t = <<>> \/ ~IsDigit(t[1])) => Match3(x, t) = (IF \E k \in 1..Len(cls) : cls[k] = <<cDash>> THEN "E" ELSE "F")
   ELSE ~WellFormed(x)                                    \* a reversed range is not judged

\* ---- segmented patterns
NTok(s) == Len(SegTokens(s, cSlash, FALSE))
\* one segment, one token: plain StringMatcher semantics
L_SegOne == (kind = "q" /\ ~SegNeg(x) /\ Len(SegOfPattern(x, cSlash, FALSE)) = 1) =>
   (Hit(11) /\ \A s \in SegSubs : \A pf \in BOOLEAN : NTok(s) = 1 => (SegMatches(x, s, cSlash, pf) <=> Matches(x, s)))
\* "the number of tokens in the pattern must exactly match the number of tokens in the string"; with prefixMatchOkay the string may be longer, never shorter
L_SegCount == kind = "q" => \A s \in SegSubs :
   LET n == Len(SegOfPattern(x, cSlash, FALSE)) IN
   ((NTok(s) # n) => (SegMatches(x, s, cSlash, FALSE) <=> SegNeg(x))) /\ ((NTok(s) < n) => (SegMatches(x, s, cSlash, TRUE) <=> SegNeg(x)))
\* a pattern of n '*' segments matches exactly the strings of n tokens (a '*' segment stands for exactly one segment)
L_SegStar == (kind = "q" /\ ~SegNeg(x) /\ \A n \in 1..Len(SegOfPattern(x, cSlash, FALSE)) : SegOfPattern(x, cSlash, FALSE)[n] = <<cStar>>) =>
   (Hit(12) /\ \A s \in SegSubs : ((SegMatches(x, s, cSlash, FALSE) <=> (NTok(s) = Len(SegOfPattern(x, cSlash, FALSE))))
                                     /\ (SegMatches(x, s, cSlash, TRUE) <=> (NTok(s) >= Len(SegOfPattern(x, cSlash, FALSE))))))
\* level-by-level: L(p1/p2) = L(p1) / L(p2)
L_SegCompose == (kind = "q" /\ ~SegNeg(x)) => \A k \in 2..(Len(x) - 1) : x[k] = cSlash =>
   LET p1 == SubSeq(x, 1, k - 1)  p2 == SubSeq(x, k + 1, Len(x))  n1 == Len(SegOfPattern(p1, cSlash, FALSE)) IN
   Hit(13) /\ \A s \in SegSubs : LET ts == SegTokens(s, cSlash, FALSE) IN
      SegMatches(x, s, cSlash, FALSE) <=> (Len(ts) >= n1 /\ SegMatches(p1, Join(SubSeq(ts, 1, n1)), cSlash, FALSE) /\ SegMatches(p2, Join(SubSeq(ts, n1 + 1, Len(ts))), cSlash, FALSE))
\* prefix mode = some prefix of the tokens matches exactly; negation = complement
L_SegPrefix == (kind = "q" /\ ~SegNeg(x)) => \A s \in SegSubs : LET ts == SegTokens(s, cSlash, FALSE) IN
   SegMatches(x, s, cSlash, TRUE) <=> \E k \in 0..Len(ts) : SegMatches(x, Join(SubSeq(ts, 1, k)), cSlash, FALSE)
L_SegNeg == (kind = "q" /\ ~SegNeg(x)) => (Hit(14) /\ \A s \in SegSubs : \A pf \in BOOLEAN : SegMatches(<<cTilde>> \o x, s, cSlash, pf) <=> ~SegMatches(x, s, cSlash, pf))

ZeroRegs == \A k \in 1..14 : TLCSet(k, 0)
ASSUME ZeroRegs
Summary == PrintT("@@" \o ToJson([escape |-> TLCGet(1), unique |-> TLCGet(2), uvlist |-> TLCGet(3), atoms |-> TLCGet(4), concat |-> TLCGet(5),
                                   alt |-> TLCGet(6), group |-> TLCGet(7), neg |-> TLCGet(8), class |-> TLCGet(9), range |-> TLCGet(10),
                                   segone |-> TLCGet(11), segstar |-> TLCGet(12), segcompose |-> TLCGet(13), segneg |-> TLCGet(14)]))
=============================================================================
