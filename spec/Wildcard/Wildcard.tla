------------------------------- MODULE Wildcard -------------------------------
(***************************************************************************)
(* The DOCUMENTED simple-pattern ("wildcard", "glob") syntax of              *)
(* regex/StringMatcher.h, written as a function oracle for property C15.     *)
(* Nothing here is transcribed from StringMatcher.cpp: the sources are the   *)
(* doxygen comments of SetPattern, IsPatternUnique,                          *)
(* IsPatternListOfUniqueValues, EscapeRegexTokens, RemoveEscapeChars,        *)
(* HasRegexTokens, CanWildcardStringMatchMultipleValues, IsRegexToken, the   *)
(* page html/muscle-by-example/docs/stringmatcher.md ("bash-shell-style      *)
(* wildcard/globbing-pattern"; wildcard characters * ? [ ] \ , ( ); ~ and    *)
(* <..> extensions) and the statement of C15 in properties.jsonl.            *)
(*                                                                           *)
(* Strings and patterns are sequences of character codes (small naturals).   *)
(*                                                                           *)
(*   Pattern := ['~'] Body                  ~ negates the whole rest         *)
(*   Body    := '<' Clause (',' Clause)* '>'     numeric-range list, or      *)
(*              Alt                              (first char not < or `)     *)
(*   Clause  := N | N '-' N | N '-' | '-' N | '-'     N canonical, < 2^32    *)
(*   Alt     := Cat ((',' | '|') Cat)*      alternatives, at any depth       *)
(*   Cat     := Atom+                       never empty                      *)
(*   Atom    := '*' | '?' | '[' ['^'] Item+ ']' | '(' Alt ')' | '\' c | c    *)
(*   Item    := c | c '-' c                 c not one of [ ] \               *)
(*                                                                           *)
(* The oracle is THREE-valued ("T", "F", "E" = either): wherever the         *)
(* documentation is silent or contradicts itself nothing is required.        *)
(*   - the empty pattern (header: "will not match any strings"; whole-string *)
(*     rule: matches the empty string): E;                                   *)
(*   - a leading backtick (raw regex mode, v6.12): not a simple pattern;     *)
(*   - an empty alternative, unbalanced [ ] ( ), a trailing backslash, a     *)
(*     backslash or [ inside a class, a reversed range, an unescaped         *)
(*     ^ $ { } = outside a class (undocumented regex pass-through), a        *)
(*     leading < that does not start a range list: ill-formed, not judged;   *)
(*   - range lists: definite only for canonical decimal subjects < 2^32 (in  *)
(*     range or not) and for subjects that do not look numeric (no match,    *)
(*     unless a clause is the fully open '-', documented as "everything").   *)
(***************************************************************************)
EXTENDS Naturals, Sequences, FiniteSets

CONSTANTS Deviations,   \* open known findings of the code: subset of {"F9", "F10", "F11"}; inputs inside their predicates are counted, not judged
          Wrong         \* names of deliberately wrong variants of this specification (vacuity guards for the laws); {} in every real run

cBang == 33  cDollar == 36  cQuote == 39  cLP == 40  cRP == 41  cStar == 42  cPlus == 43  cComma == 44  cDash == 45  cDot == 46
cLT == 60  cEq == 61  cGT == 62  cQm == 63  cLB == 91  cBsl == 92  cRB == 93  cCaret == 94  cTick == 96  cLC == 123  cBar == 124  cRC == 125  cTilde == 126

IsDigit(c) == c >= 48 /\ c <= 57
IsAlnum(c) == IsDigit(c) \/ (c >= 65 /\ c <= 90) \/ (c >= 97 /\ c <= 122)
Undocumented == {cCaret, cDollar, cLC, cRC, cEq}       \* regex operators the simple syntax passes through; no documented meaning unescaped
Min(S) == CHOOSE x \in S : \A y \in S : x <= y
FirstAt(p, c, from) == LET S == {j \in from..Len(p) : p[j] = c} IN IF S = {} THEN 0 ELSE Min(S)
Fail == [ok |-> FALSE]

(* ------------------------------ parsing -------------------------------- *)
RECURSIVE ClassItems(_, _)
ClassItems(c, k) ==      \* the items of a class body c from position k on: a set of <<lo, hi>> code ranges
  IF k > Len(c) THEN [ok |-> TRUE, items |-> {}]
  ELSE IF k + 2 <= Len(c) /\ c[k+1] = cDash
       THEN IF c[k] = cDash \/ c[k+2] = cDash \/ c[k] > c[k+2] THEN Fail
            ELSE LET r == ClassItems(c, k + 3) IN IF r.ok THEN [ok |-> TRUE, items |-> r.items \cup {<<c[k], c[k+2]>>}] ELSE Fail
       ELSE IF c[k] = cDash /\ k # 1 /\ k # Len(c) THEN Fail          \* a literal '-' only first or last
            ELSE LET r == ClassItems(c, k + 1) IN IF r.ok THEN [ok |-> TRUE, items |-> r.items \cup {<<c[k], c[k]>>}] ELSE Fail

ParseClass(p, i) ==      \* p[i] = '['
  LET neg == i + 1 <= Len(p) /\ p[i+1] = cCaret
      st  == IF neg THEN i + 2 ELSE i + 1
      e   == FirstAt(p, cRB, st)
  IN IF e = 0 \/ e = st THEN Fail
     ELSE LET c == SubSeq(p, st, e - 1) IN
          IF \E k \in 1..Len(c) : c[k] \in {cLB, cBsl} THEN Fail
          ELSE LET it == ClassItems(c, 1) IN
               IF it.ok THEN [ok |-> TRUE, node |-> [k |-> "cls", neg |-> neg, items |-> it.items], next |-> e + 1] ELSE Fail

RECURSIVE ParseAlt(_, _), ParseCat(_, _), ParseAtom(_, _)
ParseAtom(p, i) ==
  LET c == p[i] IN
  IF c = cBsl THEN (IF i + 1 > Len(p) THEN Fail ELSE [ok |-> TRUE, node |-> [k |-> "lit", c |-> p[i+1], esc |-> TRUE], next |-> i + 2])
  ELSE IF c = cStar THEN [ok |-> TRUE, node |-> [k |-> "star"], next |-> i + 1]
  ELSE IF c = cQm THEN [ok |-> TRUE, node |-> [k |-> "any"], next |-> i + 1]
  ELSE IF c = cLB THEN ParseClass(p, i)
  ELSE IF c = cLP THEN (LET r == ParseAlt(p, i + 1) IN
                        IF r.ok /\ r.next <= Len(p) /\ p[r.next] = cRP THEN [ok |-> TRUE, node |-> [k |-> "grp", alts |-> r.alts], next |-> r.next + 1] ELSE Fail)
  ELSE IF c = cRB \/ c \in Undocumented THEN Fail
  ELSE [ok |-> TRUE, node |-> [k |-> "lit", c |-> c, esc |-> FALSE], next |-> i + 1]

ParseCat(p, i) ==        \* atoms up to the next , | ) or the end
  IF i > Len(p) \/ p[i] \in {cComma, cBar, cRP} THEN [ok |-> TRUE, atoms |-> <<>>, next |-> i]
  ELSE LET a == ParseAtom(p, i) IN
       IF ~a.ok THEN Fail
       ELSE LET r == ParseCat(p, a.next) IN IF r.ok THEN [ok |-> TRUE, atoms |-> <<a.node>> \o r.atoms, next |-> r.next] ELSE Fail

ParseAlt(p, i) ==
  LET c == ParseCat(p, i) IN
  IF ~c.ok \/ c.atoms = <<>> THEN Fail                                  \* an empty alternative is ill-formed
  ELSE IF c.next <= Len(p) /\ p[c.next] \in {cComma, cBar}
       THEN LET r == ParseAlt(p, c.next + 1) IN IF r.ok THEN [ok |-> TRUE, alts |-> <<c.atoms>> \o r.alts, next |-> r.next] ELSE Fail
       ELSE [ok |-> TRUE, alts |-> <<c.atoms>>, next |-> c.next]

\* decimal numbers are kept as digit sequences (TLC integers are 32-bit)
Canonical(x) == /\ x # <<>> /\ \A k \in 1..Len(x) : IsDigit(x[k]) /\ (Len(x) = 1 \/ x[1] # 48)
NumLE(x, y)  == \/ Len(x) < Len(y)
                \/ Len(x) = Len(y) /\ (x = y \/ \E k \in 1..Len(x) : x[k] < y[k] /\ \A j \in 1..(k-1) : x[j] = y[j])
Below2p32(x) == NumLE(x, <<52, 50, 57, 52, 57, 54, 55, 50, 57, 53>>)   \* "4294967295"
GoodNum(x)   == Canonical(x) /\ Below2p32(x)

RECURSIVE SplitAt(_, _)
SplitAt(s, c) == LET k == FirstAt(s, c, 1) IN IF k = 0 THEN <<s>> ELSE <<SubSeq(s, 1, k - 1)>> \o SplitAt(SubSeq(s, k + 1, Len(s)), c)

ParseClause(cl) ==       \* <<>> as a bound = open
  LET d == FirstAt(cl, cDash, 1) IN
  IF cl = <<>> THEN Fail
  ELSE IF d = 0 THEN (IF GoodNum(cl) THEN [ok |-> TRUE, lo |-> cl, hi |-> cl] ELSE Fail)
  ELSE LET lo == SubSeq(cl, 1, d - 1)  hi == SubSeq(cl, d + 1, Len(cl)) IN
       IF (lo = <<>> \/ GoodNum(lo)) /\ (hi = <<>> \/ GoodNum(hi)) /\ (lo = <<>> \/ hi = <<>> \/ NumLE(lo, hi)) THEN [ok |-> TRUE, lo |-> lo, hi |-> hi] ELSE Fail

ParseRanges(b) ==        \* b[1] = '<'
  IF Len(b) < 3 \/ b[Len(b)] # cGT \/ FirstAt(b, cGT, 1) # Len(b) THEN Fail
  ELSE LET cls == SplitAt(SubSeq(b, 2, Len(b) - 1), cComma)
           prs == [k \in 1..Len(cls) |-> ParseClause(cls[k])]
       IN IF \A k \in 1..Len(cls) : prs[k].ok THEN [ok |-> TRUE, ranges |-> {[lo |-> prs[k].lo, hi |-> prs[k].hi] : k \in 1..Len(cls)}] ELSE Fail

\* kind: "glob" | "range" (judged), "empty" | "regex" (nothing required)
ParseTop(p) ==
  LET neg == Len(p) >= 1 /\ p[1] = cTilde
      b   == IF neg THEN Tail(p) ELSE p
  IN IF b = <<>> THEN [ok |-> TRUE, kind |-> "empty", neg |-> neg]
     ELSE IF b[1] = cTick THEN [ok |-> TRUE, kind |-> "regex", neg |-> neg]
     ELSE IF b[1] = cLT THEN (LET r == ParseRanges(b) IN IF r.ok THEN [ok |-> TRUE, kind |-> "range", neg |-> neg, ranges |-> r.ranges] ELSE Fail)
     ELSE LET r == ParseAlt(b, 1) IN
          IF r.ok /\ r.next = Len(b) + 1 THEN [ok |-> TRUE, kind |-> "glob", neg |-> neg, alts |-> r.alts] ELSE Fail

WellFormed(p) == LET t == ParseTop(p) IN t.ok /\ t.kind \in {"glob", "range"}

(* ------------------------------ matching ------------------------------- *)
InClass(node, c) == (\E it \in node.items : it[1] <= c /\ c <= it[2]) # (node.neg /\ "class_neg_ignored" \notin Wrong)

\* the set of positions of s (1..Len(s)+1) at which a match that started at some position of K can end
RECURSIVE EndsCat(_, _, _, _), EndsAtom(_, _, _)
EndsAtom(a, s, K) ==
  IF a.k = "lit" THEN {k + 1 : k \in {x \in (IF "lit_no_backtrack" \in Wrong THEN {Min(K)} ELSE K) : x <= Len(s) /\ s[x] = a.c}}
  ELSE IF a.k = "any" THEN {k + 1 : k \in {x \in K : x <= Len(s)}}
  ELSE IF a.k = "star" THEN (IF "star_needs_one" \in Wrong THEN (Min(K) + 1)..(Len(s) + 1) ELSE Min(K)..(Len(s) + 1))
  ELSE IF a.k = "cls" THEN {k + 1 : k \in {x \in K : x <= Len(s) /\ InClass(a, s[x])}}
  ELSE UNION {EndsCat(a.alts[n], 1, s, K) : n \in (IF "group_first_only" \in Wrong THEN {1} ELSE 1..Len(a.alts))}
EndsCat(atoms, n, s, K) == IF n > Len(atoms) \/ K = {} THEN K ELSE EndsCat(atoms, n + 1, s, EndsAtom(atoms[n], s, K))

MatchGlob(alts, s) == \E n \in (IF "alt_first_only" \in Wrong THEN {1} ELSE 1..Len(alts)) : (Len(s) + 1) \in EndsCat(alts[n], 1, s, {1})

LooksNumeric(s) == s # <<>> /\ (IsDigit(s[1]) \/ s[1] <= 32 \/ s[1] \in {cPlus, cDash})
MatchRange(ranges, s) ==
  IF GoodNum(s) THEN (IF \E r \in ranges : (r.lo = <<>> \/ NumLE(r.lo, s)) /\ (r.hi = <<>> \/ (NumLE(s, r.hi) /\ ~(s = r.hi /\ "range_hi_exclusive" \in Wrong))) THEN "T" ELSE "F")
  ELSE IF LooksNumeric(s) THEN "E"
  ELSE IF \E r \in ranges : r.lo = <<>> /\ r.hi = <<>> THEN "E" ELSE "F"

Not3(x) == IF x = "T" THEN "F" ELSE IF x = "F" THEN "T" ELSE "E"
\* top = ParseTop(p), top.ok
MatchTop(top, s) ==
  LET body == IF top.kind = "glob" THEN (IF MatchGlob(top.alts, s) THEN "T" ELSE "F")
              ELSE IF top.kind = "range" THEN MatchRange(top.ranges, s) ELSE "E"
  IN IF top.neg /\ ~(top.kind = "range" /\ "neg_ignored_for_ranges" \in Wrong) THEN Not3(body) ELSE body

Match3(p, s)  == LET t == ParseTop(p) IN IF t.ok THEN MatchTop(t, s) ELSE "E"
Matches(p, s) == Match3(p, s) = "T"

(* ------------------- segmented patterns (SegmentedStringMatcher.h) ------------------- *)
(* "Similar to a StringMatcher, but this version segments both the wild card expression and the paths to be matched      *)
(*  against into sections.  For example, if the wild card expression is "*foo/bar*" and the string to be matched against *)
(*  is "foot/ball", the SegmentedStringMatcher will try to match "foo*" against "foot" and then "bar*" against "ball",    *)
(*  instead of trying to match "*foo/bar*" against "foot/ball"."                                                         *)
(* Match(matchString, prefixMatchOkay): "if true, Match() will match a pattern that is shorter than the number of tokens *)
(*  parsed, as long as the initial tokens match.  For example, a pattern of "f??/b??" would match the string             *)
(*  "foo/bar/baz" ...  If false, then the number of tokens in the pattern must exactly match the number of tokens in the *)
(*  string."   SetNegate: "Match() will return the logical opposite of what it would otherwise return ... this flag is   *)
(*  also set by SetPattern(..., true), based on whether or not the pattern string starts with a tilde."                  *)
(* segmentSeparatorChars: "This string will be passed to our StringTokenizer"; StringTokenizer.h: a character listed     *)
(*  once is a "soft" separator: "multiple contiguous instances of this character will be treated as a single separator", *)
(*  listed twice a "hard" separator: "multiple contiguous instances are interpreted as separating empty sub-strings".    *)
(* Silent, hence Either: a leading or trailing separator (pattern or subject), the empty string under a hard separator,  *)
(*  a pattern without any segment, a segment that itself begins with ~ or a backtick or is not a judged simple pattern.  *)
cSlash == 47
SegDefinite(s, sep, hard) == IF s = <<>> THEN ~hard ELSE s[1] # sep /\ s[Len(s)] # sep
SegTokens(s, sep, hard)   == IF s = <<>> THEN <<>> ELSE IF hard THEN SplitAt(s, sep) ELSE SelectSeq(SplitAt(s, sep), LAMBDA x : x # <<>>)
SegNeg(p)  == p # <<>> /\ p[1] = cTilde
SegBody(p) == IF SegNeg(p) THEN Tail(p) ELSE p
SegOfPattern(p, sep, hard) == SegTokens(SegBody(p), sep, hard)
\* the pattern has a documented meaning segment by segment
SegJudged(p, sep, hard) == /\ SegBody(p) # <<>> /\ SegDefinite(SegBody(p), sep, hard)
                           /\ LET segs == SegOfPattern(p, sep, hard) IN \A n \in 1..Len(segs) : segs[n] # <<>> /\ segs[n][1] \notin {cTilde, cTick} /\ WellFormed(segs[n])
And3(S) == IF "F" \in S THEN "F" ELSE IF "E" \in S THEN "E" ELSE "T"
\* res[n] = the three-valued answer of pattern segment n for subject token n (only n <= number of tokens is looked at)
SegCombine(neg, nsegs, ntoks, prefixOK, res) ==
  LET starTail == "seg_star_skips_count" \in Wrong          \* deliberately wrong variant: see WildcardLaws
      r == IF ~starTail /\ (ntoks < nsegs \/ (~prefixOK /\ ntoks # nsegs)) THEN "F"
           ELSE IF starTail /\ ~prefixOK /\ ntoks > nsegs THEN "F"
           ELSE And3({res[n] : n \in 1..(IF ntoks < nsegs THEN ntoks ELSE nsegs)})
  IN IF neg THEN Not3(r) ELSE r
SegMatch3(p, s, sep, hard, prefixOK) ==
  IF ~SegJudged(p, sep, hard) \/ ~SegDefinite(s, sep, hard) THEN "E"
  ELSE LET segs == SegOfPattern(p, sep, hard)  toks == SegTokens(s, sep, hard) IN
       SegCombine(SegNeg(p), Len(segs), Len(toks), prefixOK, [n \in 1..Len(segs) |-> IF n <= Len(toks) THEN Match3(segs[n], toks[n]) ELSE "F"])
SegMatches(p, s, sep, prefixOK) == SegMatch3(p, s, sep, FALSE, prefixOK) = "T"

(* ---------------------- escaping and uniqueness ------------------------ *)
\* characters with a meaning in a simple pattern; EscapeRegexTokens: "a backslash inserted in front of any char that is special"
SpecialAnywhere == {cStar, cQm, cLB, cRB, cLP, cRP, cBar, cComma, cBsl} \cup Undocumented
SpecialIfFirst  == {cTilde, cLT, cTick}
Escape(s) ==
  LET RECURSIVE E(_)
      E(k) == IF k > Len(s) THEN <<>>
              ELSE (IF (s[k] \in SpecialAnywhere /\ ~(s[k] = cBar /\ "escape_forgets_bar" \in Wrong)) \/ (k = 1 /\ s[k] \in SpecialIfFirst) THEN <<cBsl, s[k]>> ELSE <<s[k]>>) \o E(k + 1)
  IN E(1)

\* "does essentially the opposite of EscapeRegexTokens()": every escaping backslash is dropped, the escaped character kept
RemoveEscapes(p) ==
  LET RECURSIVE R(_)
      R(k) == IF k > Len(p) THEN <<>>
              ELSE IF p[k] = cBsl THEN (IF k + 1 > Len(p) THEN <<>> ELSE (IF "unescape_drops_escaped" \in Wrong THEN <<>> ELSE <<p[k+1]>>) \o R(k + 2))
              ELSE <<p[k]>> \o R(k + 1)
  IN R(1)
\* the literal reading of the same comment: "removes any backslashes that are not immediately preceded by another backslash"
RemoveEscapesLiteral(p) ==
  LET RECURSIVE R(_)
      R(k) == IF k > Len(p) THEN <<>> ELSE (IF p[k] = cBsl /\ (k = 1 \/ p[k-1] # cBsl) THEN <<>> ELSE <<p[k]>>) \o R(k + 1)
  IN R(1)

\* e is s with a backslash inserted in front of some of its characters (and in front of every backslash)
IsEscapingOf(e, s) ==
  LET RECURSIVE W(_, _)
      W(i, j) == IF i > Len(e) THEN j > Len(s)
                 ELSE IF j > Len(s) THEN FALSE
                 ELSE IF e[i] = cBsl THEN i + 1 <= Len(e) /\ e[i+1] = s[j] /\ W(i + 2, j + 1)
                 ELSE e[i] = s[j] /\ W(i + 1, j + 1)
  IN W(1, 1)

AllLit(atoms) == \A n \in 1..Len(atoms) : atoms[n].k = "lit" \/ ("unique_ignores_qmark" \in Wrong /\ atoms[n].k = "any")
\* "plain old text, with no wildcards or other pattern matching logic specified"
LiteralOnlyTop(t) == t.ok /\ t.kind = "glob" /\ ~t.neg /\ Len(t.alts) = 1 /\ AllLit(t.alts[1])
LiteralOnly(p) == LiteralOnlyTop(ParseTop(p))
IsUnique(p) == LiteralOnly(p)

\* the pieces between unescaped commas, unescaped
RECURSIVE SplitUnescaped(_, _, _)
SplitUnescaped(p, k, cur) ==
  IF k > Len(p) THEN <<cur>>
  ELSE IF p[k] = cBsl THEN SplitUnescaped(p, k + 2, cur \o SubSeq(p, k, IF k + 1 <= Len(p) THEN k + 1 ELSE k))
  ELSE IF p[k] = cComma THEN <<cur>> \o SplitUnescaped(p, k + 1, <<>>)
  ELSE SplitUnescaped(p, k + 1, Append(cur, p[k]))
UVItems(p) == LET ps == SplitUnescaped(p, 1, <<>>) IN {RemoveEscapes(ps[k]) : k \in 1..Len(ps)}
\* "a comma-separated list of one or more non-wildcarded substrings"
IsUVListTop(t, p) == t.ok /\ t.kind = "glob" /\ ~t.neg /\ (\A n \in 1..Len(t.alts) : AllLit(t.alts[n]) \/ ("uvlist_allows_star" \in Wrong)) /\ Len(t.alts) = Len(SplitUnescaped(p, 1, <<>>))
IsUVList(p) == IsUVListTop(ParseTop(p), p)

\* only characters nobody could take for special: letters, digits, escaped characters
SurelyPlainAtoms(atoms) == \A n \in 1..Len(atoms) : atoms[n].k = "lit" /\ (atoms[n].esc \/ IsAlnum(atoms[n].c))
SurelyPlainTop(t) == t.ok /\ t.kind = "glob" /\ ~t.neg /\ Len(t.alts) = 1 /\ SurelyPlainAtoms(t.alts[1])

(* ---------------- predicates of the open known findings ---------------- *)
\* F9: an escaping backslash in front of a letter, a digit, < > ' or a backtick reaches the regex library as an operator
F9(p) == LET RECURSIVE S(_)
             S(k) == IF k >= Len(p) THEN FALSE
                     ELSE IF p[k] = cBsl THEN (IsAlnum(p[k+1]) \/ p[k+1] \in {cLT, cGT, cQuote, cTick}) \/ S(k + 2)
                     ELSE S(k + 1)
         IN S(1)
\* F10: one of , * ? . + ( ) | between an unescaped [ and its ]
F10(p) == LET RECURSIVE S(_)
              S(k) == IF k > Len(p) THEN FALSE
                      ELSE IF p[k] = cBsl THEN S(k + 2)
                      ELSE IF p[k] = cLB THEN (LET e == FirstAt(p, cRB, k + 1) IN
                                               IF e = 0 THEN FALSE
                                               ELSE (\E j \in (k+1)..(e-1) : p[j] \in {cComma, cStar, cQm, cDot, cPlus, cLP, cRP, cBar}) \/ S(e + 1))
                      ELSE S(k + 1)
          IN S(1)
\* F11: EscapeRegexTokens applied to a string whose first character is a backtick
F11(s) == s # <<>> /\ s[1] = cTick
=============================================================================
