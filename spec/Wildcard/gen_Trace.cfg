SPECIFICATION Spec
CONSTANTS
  Deviations = {"F10", "F11", "F9"}
  Wrong = {}
INVARIANT LineOK
POSTCONDITION Summary
