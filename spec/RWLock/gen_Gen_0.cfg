SPECIFICATION Spec
CONSTANTS
  T = {1, 2}
  PreferWriters = FALSE
  MaxOps = 2
  MaxRec = 2
  Ops = {"LR", "LRtry", "LRtimed", "LW", "LWtry", "LWtimed", "UR", "UW"}
  Deviations = {"F8timed"}
  RECORD = TRUE
INVARIANTS TypeOK
