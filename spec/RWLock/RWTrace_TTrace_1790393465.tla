---- MODULE RWTrace_TTrace_1790393465 ----
EXTENDS Sequences, TLCExt, Toolbox, RWTrace, Naturals, TLC

_expression ==
    LET RWTrace_TEExpression == INSTANCE RWTrace_TEExpression
    IN RWTrace_TEExpression!expression
----

_trace ==
    LET RWTrace_TETrace == INSTANCE RWTrace_TETrace
    IN RWTrace_TETrace!trace
----

_inv ==
    ~(
        TLCGet("level") = Len(_TETrace)
        /\
        wcPool = (<<>>)
        /\
        overtook = (FALSE)
        /\
        last = ([a |-> "Init"])
        /\
        th = (<<[op |-> "none", pc |-> "idle", res |-> "na", npc |-> "idle", mode |-> "none", opmode |-> "none", up |-> [n |-> 0, k |-> 0, res |-> "na"], expired |-> FALSE, snap |-> <<0, 0>>, nops |-> 0, lop |-> "none"], [op |-> "none", pc |-> "idle", res |-> "na", npc |-> "idle", mode |-> "none", opmode |-> "none", up |-> [n |-> 0, k |-> 0, res |-> "na"], expired |-> FALSE, snap |-> <<0, 0>>, nops |-> 0, lop |-> "none"], [op |-> "none", pc |-> "idle", res |-> "na", npc |-> "idle", mode |-> "none", opmode |-> "none", up |-> [n |-> 0, k |-> 0, res |-> "na"], expired |-> FALSE, snap |-> <<0, 0>>, nops |-> 0, lop |-> "none"], [op |-> "none", pc |-> "idle", res |-> "na", npc |-> "idle", mode |-> "none", opmode |-> "none", up |-> [n |-> 0, k |-> 0, res |-> "na"], expired |-> FALSE, snap |-> <<0, 0>>, nops |-> 0, lop |-> "none"]>>)
        /\
        rw = (<<0, 0, 0, 0>>)
        /\
        waitR = ({})
        /\
        waitW = (<<>>)
        /\
        l = (2)
        /\
        ro = (<<0, 0, 0, 0>>)
        /\
        early = (<<[a |-> "none"], [a |-> "none"], [a |-> "none"], [a |-> "none"]>>)
        /\
        pend = (<<FALSE, FALSE, FALSE, FALSE>>)
    )
----

_init ==
    /\ overtook = _TETrace[1].overtook
    /\ l = _TETrace[1].l
    /\ pend = _TETrace[1].pend
    /\ ro = _TETrace[1].ro
    /\ rw = _TETrace[1].rw
    /\ early = _TETrace[1].early
    /\ last = _TETrace[1].last
    /\ waitR = _TETrace[1].waitR
    /\ waitW = _TETrace[1].waitW
    /\ th = _TETrace[1].th
    /\ wcPool = _TETrace[1].wcPool
----

_next ==
    /\ \E i,j \in DOMAIN _TETrace:
        /\ \/ /\ j = i + 1
              /\ i = TLCGet("level")
        /\ overtook  = _TETrace[i].overtook
        /\ overtook' = _TETrace[j].overtook
        /\ l  = _TETrace[i].l
        /\ l' = _TETrace[j].l
        /\ pend  = _TETrace[i].pend
        /\ pend' = _TETrace[j].pend
        /\ ro  = _TETrace[i].ro
        /\ ro' = _TETrace[j].ro
        /\ rw  = _TETrace[i].rw
        /\ rw' = _TETrace[j].rw
        /\ early  = _TETrace[i].early
        /\ early' = _TETrace[j].early
        /\ last  = _TETrace[i].last
        /\ last' = _TETrace[j].last
        /\ waitR  = _TETrace[i].waitR
        /\ waitR' = _TETrace[j].waitR
        /\ waitW  = _TETrace[i].waitW
        /\ waitW' = _TETrace[j].waitW
        /\ th  = _TETrace[i].th
        /\ th' = _TETrace[j].th
        /\ wcPool  = _TETrace[i].wcPool
        /\ wcPool' = _TETrace[j].wcPool

\* Uncomment the ASSUME below to write the states of the error trace
\* to the given file in Json format. Note that you can pass any tuple
\* to `JsonSerialize`. For example, a sub-sequence of _TETrace.
    \* ASSUME
    \*     LET J == INSTANCE Json
    \*         IN J!JsonSerialize("RWTrace_TTrace_1790393465.json", _TETrace)

=============================================================================

 Note that you can extract this module `RWTrace_TEExpression`
  to a dedicated file to reuse `expression` (the module in the 
  dedicated `RWTrace_TEExpression.tla` file takes precedence 
  over the module `RWTrace_TEExpression` below).

---- MODULE RWTrace_TEExpression ----
EXTENDS Sequences, TLCExt, Toolbox, RWTrace, Naturals, TLC

expression == 
    [
        \* To hide variables of the `RWTrace` spec from the error trace,
        \* remove the variables below.  The trace will be written in the order
        \* of the fields of this record.
        overtook |-> overtook
        ,l |-> l
        ,pend |-> pend
        ,ro |-> ro
        ,rw |-> rw
        ,early |-> early
        ,last |-> last
        ,waitR |-> waitR
        ,waitW |-> waitW
        ,th |-> th
        ,wcPool |-> wcPool
        
        \* Put additional constant-, state-, and action-level expressions here:
        \* ,_stateNumber |-> _TEPosition
        \* ,_overtookUnchanged |-> overtook = overtook'
        
        \* Format the `overtook` variable as Json value.
        \* ,_overtookJson |->
        \*     LET J == INSTANCE Json
        \*     IN J!ToJson(overtook)
        
        \* Lastly, you may build expressions over arbitrary sets of states by
        \* leveraging the _TETrace operator.  For example, this is how to
        \* count the number of times a spec variable changed up to the current
        \* state in the trace.
        \* ,_overtookModCount |->
        \*     LET F[s \in DOMAIN _TETrace] ==
        \*         IF s = 1 THEN 0
        \*         ELSE IF _TETrace[s].overtook # _TETrace[s-1].overtook
        \*             THEN 1 + F[s-1] ELSE F[s-1]
        \*     IN F[_TEPosition - 1]
    ]

=============================================================================



Parsing and semantic processing can take forever if the trace below is long.
 In this case, it is advised to uncomment the module below to deserialize the
 trace from a generated binary file.

\*
\*---- MODULE RWTrace_TETrace ----
\*EXTENDS IOUtils, RWTrace, TLC
\*
\*trace == IODeserialize("RWTrace_TTrace_1790393465.bin", TRUE)
\*
\*=============================================================================
\*

---- MODULE RWTrace_TETrace ----
EXTENDS RWTrace, TLC

trace == 
    <<
    ([wcPool |-> <<>>,overtook |-> FALSE,last |-> [a |-> "Init"],th |-> <<[op |-> "none", pc |-> "idle", res |-> "na", npc |-> "idle", mode |-> "none", opmode |-> "none", up |-> [n |-> 0, k |-> 0, res |-> "na"], expired |-> FALSE, snap |-> <<0, 0>>, nops |-> 0, lop |-> "none"], [op |-> "none", pc |-> "idle", res |-> "na", npc |-> "idle", mode |-> "none", opmode |-> "none", up |-> [n |-> 0, k |-> 0, res |-> "na"], expired |-> FALSE, snap |-> <<0, 0>>, nops |-> 0, lop |-> "none"], [op |-> "none", pc |-> "idle", res |-> "na", npc |-> "idle", mode |-> "none", opmode |-> "none", up |-> [n |-> 0, k |-> 0, res |-> "na"], expired |-> FALSE, snap |-> <<0, 0>>, nops |-> 0, lop |-> "none"], [op |-> "none", pc |-> "idle", res |-> "na", npc |-> "idle", mode |-> "none", opmode |-> "none", up |-> [n |-> 0, k |-> 0, res |-> "na"], expired |-> FALSE, snap |-> <<0, 0>>, nops |-> 0, lop |-> "none"]>>,rw |-> <<0, 0, 0, 0>>,waitR |-> {},waitW |-> <<>>,l |-> 1,ro |-> <<0, 0, 0, 0>>,early |-> <<[a |-> "none"], [a |-> "none"], [a |-> "none"], [a |-> "none"]>>,pend |-> <<FALSE, FALSE, FALSE, FALSE>>]),
    ([wcPool |-> <<>>,overtook |-> FALSE,last |-> [a |-> "Init"],th |-> <<[op |-> "none", pc |-> "idle", res |-> "na", npc |-> "idle", mode |-> "none", opmode |-> "none", up |-> [n |-> 0, k |-> 0, res |-> "na"], expired |-> FALSE, snap |-> <<0, 0>>, nops |-> 0, lop |-> "none"], [op |-> "none", pc |-> "idle", res |-> "na", npc |-> "idle", mode |-> "none", opmode |-> "none", up |-> [n |-> 0, k |-> 0, res |-> "na"], expired |-> FALSE, snap |-> <<0, 0>>, nops |-> 0, lop |-> "none"], [op |-> "none", pc |-> "idle", res |-> "na", npc |-> "idle", mode |-> "none", opmode |-> "none", up |-> [n |-> 0, k |-> 0, res |-> "na"], expired |-> FALSE, snap |-> <<0, 0>>, nops |-> 0, lop |-> "none"], [op |-> "none", pc |-> "idle", res |-> "na", npc |-> "idle", mode |-> "none", opmode |-> "none", up |-> [n |-> 0, k |-> 0, res |-> "na"], expired |-> FALSE, snap |-> <<0, 0>>, nops |-> 0, lop |-> "none"]>>,rw |-> <<0, 0, 0, 0>>,waitR |-> {},waitW |-> <<>>,l |-> 2,ro |-> <<0, 0, 0, 0>>,early |-> <<[a |-> "none"], [a |-> "none"], [a |-> "none"], [a |-> "none"]>>,pend |-> <<FALSE, FALSE, FALSE, FALSE>>])
    >>
----


=============================================================================

---- CONFIG RWTrace_TTrace_1790393465 ----
CONSTANTS
    T = { 1 , 2 , 3 , 4 }
    PreferWriters = TRUE
    MaxOps = 1000
    MaxRec = 1000
    Ops = { "LR" , "LRtry" , "LRtimed" , "LW" , "LWtry" , "LWtimed" , "UR" , "UW" }
    Deviations = { "F8timed" }
    RECORD = TRUE

INVARIANT
    _inv

CHECK_DEADLOCK
    \* CHECK_DEADLOCK off because of PROPERTY or INVARIANT above.
    FALSE

INIT
    _init

NEXT
    _next

CONSTANT
    _TETrace <- _trace

ALIAS
    _expression
=============================================================================
\* Generated on Sat Sep 26 03:31:07 UTC 2026