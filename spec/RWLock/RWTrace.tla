------------------------------- MODULE RWTrace -------------------------------
(* Trace validation for C18: events recorded at the linearization points of the real ReaderWriterMutex    *)
(* (inside the _stateMutex critical sections, so their order is the order of the critical sections) are     *)
(* replayed against RWImpl.  Wait() returning (WaitOK / WaitTimeout) and the hand-back of a wait-condition  *)
(* to its pool (RelWC) are not logged by the code; the controlled scheduler observes and logs them.  Several executions are concatenated with {"e":"Reset"} lines.           *)
EXTENDS RWImpl, IOUtils

VARIABLES l,      \* next line of the trace
          early   \* [T -> the step record of a queueing critical section already taken at its ObtainWC line, or [a |-> "none"]]
TraceLog == ndJsonDeserialize(IOEnv.TRACE)
N == Len(TraceLog)
None == [a |-> "none"]

TraceInit == Init /\ l = 1 /\ early = [t \in T |-> None] /\ TLCSet(1, 0)

PreState(e) == e \in {"RelR", "RelW", "UpgradeBegin"}     \* events the code emits before it changes the tables
Unlogged == {"WaitOK", "WaitTimeout", "RelWC", "ObtainWC"} \* steps observed by the scheduler, not logged by the code
Queues   == {"QueueR", "QueueW"}

Matches(rec, ln) == /\ rec.ev = ln.e /\ rec.t = ln.t /\ rec.site = ln.site /\ rec.op = ln.op
                    /\ (~PreState(ln.e) => (rec.ex = ln.ex /\ rec.wr = ln.wr /\ rec.ww = ln.ww))

\* an event logged by the code inside a _stateMutex critical section
Evented == /\ l <= N /\ TraceLog[l].e \notin (Unlogged \cup Queues \cup {"Reset"})
           /\ ThreadNext(TraceLog[l].t) /\ Matches(last', TraceLog[l])
           /\ l' = l + 1 /\ UNCHANGED early

\* The critical section that queues a thread takes a wait-condition from the pool *inside* the critical section, and other
\* threads may hand theirs back (RelWC, no _stateMutex needed) between that moment and the moment the QueueR / QueueW
\* event is logged at the end of the same critical section.  With respect to the pool the step therefore happens at its
\* ObtainWC line; the event line that follows (nothing else can enter _stateMutex in between) only has to agree with it.
ObtainLine == /\ l <= N /\ TraceLog[l].e = "ObtainWC"
              /\ LET t == TraceLog[l].t IN
                 /\ early[t] = None
                 /\ ThreadNext(t) /\ last'.ev \in Queues /\ last'.t = t /\ last'.op = TraceLog[l].op
                 /\ early' = [early EXCEPT ![t] = last']
              /\ l' = l + 1
QueueLine ==  /\ l <= N /\ TraceLog[l].e \in Queues
              /\ LET t == TraceLog[l].t IN
                 /\ early[t] # None /\ Matches(early[t], TraceLog[l])
                 /\ early' = [early EXCEPT ![t] = None]
              /\ l' = l + 1 /\ UNCHANGED vars

Observed == /\ l <= N /\ TraceLog[l].e \in {"WaitOK", "WaitTimeout", "RelWC"}
            /\ LET ln == TraceLog[l] IN
               CASE ln.e = "WaitOK" -> WaitOK(ln.t)
                 [] ln.e = "WaitTimeout" -> WaitTimeout(ln.t)
                 [] ln.e = "RelWC" -> RelWC(ln.t)
            /\ l' = l + 1 /\ UNCHANGED early

\* a new execution starts: everything must have been released
TReset == /\ l <= N /\ TraceLog[l].e = "Reset"
          /\ (\A t \in T : ro[t] + rw[t] = 0 /\ th[t].pc = "idle") /\ waitR = {} /\ waitW = <<>>
          /\ ro' = [t \in T |-> 0] /\ rw' = [t \in T |-> 0] /\ waitR' = {} /\ waitW' = <<>>
          /\ pend' = [t \in T |-> FALSE] /\ wcPool' = <<>> /\ th' = [t \in T |-> Th0]
          /\ overtook' = FALSE /\ last' = [a |-> "Init"]
          /\ l' = l + 1 /\ early' = [t \in T |-> None]

TraceNext == Evented \/ ObtainLine \/ QueueLine \/ Observed \/ TReset
TraceSpec == TraceInit /\ [][TraceNext]_<<vars, l, early>>

\* "violated" = the whole trace was explained by the specification
NotAccepted == l <= N
\* progress register for diagnosing a rejection (needs -workers 1)
Track == TLCSet(1, IF TLCGet(1) > l THEN TLCGet(1) ELSE l)
TrackInit == TLCSet(1, 0)
Report == PrintT(<<"maxline", TLCGet(1), "of", N>>)
=============================================================================
