SPECIFICATION Spec
CONSTANTS
  T = {1, 2}
  PreferWriters = FALSE
  MaxOps = 3
  MaxRec = 2
  Ops = {"LR", "LRtry", "LRtimed", "LW", "LWtry", "LWtimed", "UR", "UW"}
  Deviations = {}
  RECORD = FALSE
INVARIANTS DeadlineRespected
