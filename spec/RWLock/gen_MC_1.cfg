SPECIFICATION FairSpec
CONSTANTS
  T = {1, 2}
  PreferWriters = TRUE
  MaxOps = 3
  MaxRec = 2
  Ops = {"LR", "LRtry", "LRtimed", "LW", "LWtry", "LWtimed", "UR", "UW"}
  Deviations = {"F8timed"}
  RECORD = FALSE
INVARIANTS TypeOK Excl Tables CountsExact FailLeavesStateUnchanged DeadlineRespected TryNeverWaits NoOvertake Quiescent
PROPERTIES NoStrand Terminates
