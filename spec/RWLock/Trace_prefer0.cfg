SPECIFICATION TraceSpec
CONSTANTS
  T = {1, 2, 3, 4}
  PreferWriters = FALSE
  MaxOps = 1000
  MaxRec = 1000
  Ops = {"LR", "LRtry", "LRtimed", "LW", "LWtry", "LWtimed", "UR", "UW"}
  Deviations = {"F8timed"}
  RECORD = TRUE
INVARIANTS NotAccepted Excl Tables FailLeavesStateUnchanged DeadlineRespected NoOvertake
CONSTRAINT Track
POSTCONDITION Report
