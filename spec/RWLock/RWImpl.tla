------------------------------- MODULE RWImpl -------------------------------
(***************************************************************************)
(* system/ReaderWriterMutex.cpp as coded: a recursive reader/writer lock    *)
(* with read->write upgrade, try / timed variants, writer preference, and   *)
(* per-waiter wait-conditions taken from an object pool (whose pending      *)
(* notification count survives recycling).                                  *)
(*                                                                          *)
(* One action = what a thread does from one STOP POINT to the next.  Stop   *)
(* points are the places where being overtaken matters: (a) between two     *)
(* public calls ("idle"), (b) blocked in WaitCondition::Wait(), (c) about   *)
(* to lock _stateMutex.  Everything between two stop points is one          *)
(* _stateMutex critical section plus thread-local code, hence atomic.       *)
(* The conformance harness stops the real threads at exactly these points.  *)
(*                                                                          *)
(* The property (C18) is at the bottom: Excl, CountsExact,                  *)
(* FailLeavesStateUnchanged, DeadlineRespected, NoOvertake, NoStrand.       *)
(***************************************************************************)
EXTENDS Naturals, Sequences, FiniteSets, TLC, Json

CONSTANTS T,             \* threads
          PreferWriters, \* constructor argument
          MaxOps,        \* public calls per thread before it cleans up
          MaxRec,        \* bound on the recursion depth generated (per mode)
          Ops,           \* the public calls the threads may make
          Deviations,    \* named deviations of the code from the property, modelled as they are: subset of {"F8timed"}
          RECORD         \* TRUE: keep the history variable (behaviour generation)

AllOps == {"LR", "LRtry", "LRtimed", "LW", "LWtry", "LWtimed", "UR", "UW"}
ASSUME Ops \subseteq AllOps

VARIABLES ro, rw,     \* [T -> Nat] recursion counts of t's entry in _executingThreads (no entry = both 0)
          waitR,      \* set: _waitingReaderThreads
          waitW,      \* sequence: _waitingWriterThreads (the Hashtable keeps insertion order; the first is notified)
          pend,       \* [T -> BOOLEAN] pending-notification flag of the wait-condition t currently holds
          wcPool,     \* stack of the pending flags of recycled wait-conditions (the pool's free list is LIFO)
          th,         \* [T -> thread-local record]
          overtook,   \* ghost: a non-holding reader got in while a writer was queued and PreferWriters
          last        \* record describing the last step (behaviour generation / trace validation; constant when RECORD = FALSE)

vars == <<ro, rw, waitR, waitW, pend, wcPool, th, overtook, last>>

NoUp == [n |-> 0, k |-> 0, res |-> "na"]
Th0  == [pc |-> "idle",        \* stop point
         npc |-> "idle",       \* where to go after the wait-condition has been handed back to its pool (pc = "RelWC")
         mode |-> "none",      \* deadline kind of the wait t is in: try | timed | untimed
         op |-> "none", opmode |-> "none",   \* current public call and its deadline kind
         up |-> NoUp,          \* upgrade continuation: n saved read locks, k remaining in this phase, res result of the write-lock phase
         expired |-> FALSE,    \* the deadline of the current public call has passed
         snap |-> <<0, 0>>,    \* <<ro, rw>> at the start of the current public call
         nops |-> 0,
         lop |-> "none",       \* the public call that finished last (ghost)
         res |-> "na"]         \* its result (ghost)

Init == /\ ro = [t \in T |-> 0] /\ rw = [t \in T |-> 0]
        /\ waitR = {} /\ waitW = <<>>
        /\ pend = [t \in T |-> FALSE] /\ wcPool = <<>>
        /\ th = [t \in T |-> Th0]
        /\ overtook = FALSE /\ last = [a |-> "Init"]

Cur == [ro |-> ro, rw |-> rw, waitR |-> waitR, waitW |-> waitW, pend |-> pend, wcPool |-> wcPool, overtook |-> overtook]

ExecOf(s)   == {x \in T : s.ro[x] + s.rw[x] > 0}
RECURSIVE SumRW(_, _)
SumRW(f, S) == IF S = {} THEN 0 ELSE LET x == CHOOSE y \in S : TRUE IN f[x] + SumRW(f, S \ {x})
TotalOf(s)  == SumRW(s.rw, T)                                                   \* _totalReadWriteRecurseCount
OkReaders(s)   == TotalOf(s) = 0 /\ (~PreferWriters \/ s.waitW = <<>>)          \* IsOkayForReaderThreadsToExecuteNow
OkWriter(s, t) == ExecOf(s) = {} /\ (s.waitW = <<>> \/ Head(s.waitW) = t)       \* IsOkayForWriterThreadToExecuteNow
ModeOf(o) == CASE o \in {"LRtry", "LWtry"} -> "try" [] o \in {"LRtimed", "LWtimed"} -> "timed" [] OTHER -> "untimed"
Remove(seq, x) == SelectSeq(seq, LAMBDA y : y # x)

\* --- notifications: executed inside the critical section, on the tables as they are at that moment ----
NotifyAllReaders(s) == [s EXCEPT !.pend = [x \in T |-> IF x \in s.waitR THEN TRUE ELSE s.pend[x]]]
NotifyNextWriter(s) == IF s.waitW = <<>> THEN s ELSE [s EXCEPT !.pend[Head(s.waitW)] = TRUE]
NotifySome(s)  == IF s.waitR # {} /\ s.waitW # <<>> THEN (IF PreferWriters THEN NotifyNextWriter(s) ELSE NotifyAllReaders(s))
                  ELSE IF s.waitR # {} THEN NotifyAllReaders(s)
                  ELSE IF s.waitW # <<>> THEN NotifyNextWriter(s)
                  ELSE s
MaybeNotify(s) == IF TotalOf(s) = 0 /\ ExecOf(s) = {} THEN NotifySome(s) ELSE s

\* --- wait-condition pool --------------------------------------------------------------------------
ObtainWC(s, t)  == IF s.wcPool = <<>> THEN [s EXCEPT !.pend[t] = FALSE]
                   ELSE [s EXCEPT !.pend[t] = Head(s.wcPool), !.wcPool = Tail(s.wcPool)]
ReleaseWC(s, t) == [s EXCEPT !.wcPool = <<s.pend[t]>> \o s.wcPool]

\* --- thread-local continuations ---------------------------------------------------------------------
Fin(me, r) == [me EXCEPT !.pc = "idle", !.op = "none", !.opmode = "none", !.mode = "none", !.expired = FALSE, !.res = r, !.up = NoUp]
\* the write-lock part of a call ended with result r
AfterLW(me, r) == IF me.up = NoUp THEN Fin(me, r)
                  ELSE [me EXCEPT !.pc = "UpRelock", !.up = [n |-> me.up.n, k |-> me.up.n, res |-> r], !.mode = "untimed"]
\* a read-lock acquisition succeeded
AfterLR(me)    == IF me.up = NoUp THEN Fin(me, "ok")
                  ELSE IF me.up.k = 1 THEN Fin(me, me.up.res)
                  ELSE [me EXCEPT !.pc = "UpRelock", !.up.k = @ - 1]

R(s, me, ev, site) == [s |-> s, me |-> me, ev |-> ev, site |-> site]
\* the last reference to the waiter's wait-condition is a local variable of the Lock*Aux call: the object goes back to
\* the pool when that call returns, AFTER _stateMutex has been released - a separate step (the pool has its own lock)
Defer(me) == [me EXCEPT !.pc = "RelWC", !.npc = me.pc]

\* --- LockReadOnlyAux(deadline kind m), first critical section ------------------------------------
LREnter(s, t, me, m) ==
    IF s.ro[t] + s.rw[t] > 0 THEN R([s EXCEPT !.ro[t] = @ + 1], AfterLR(me), "AcqR", 0)
    ELSE IF ~OkReaders(s) THEN
        IF m = "try" THEN R(s, Fin(me, "fail"), "FailR", 0)
        ELSE R(ObtainWC([s EXCEPT !.waitR = @ \cup {t}], t), [me EXCEPT !.pc = "RWait", !.mode = m], "QueueR", 0)
    ELSE R([s EXCEPT !.ro[t] = 1, !.overtook = (@ \/ (PreferWriters /\ s.waitW # <<>>))], AfterLR(me), "AcqR", 2)

\* --- LockReadWriteAux(deadline kind m), first critical section ------------------------------------
LWEnter(s, t, me, m) ==
    IF s.ro[t] + s.rw[t] > 0 THEN
        IF s.rw[t] > 0 \/ ExecOf(s) = {t} THEN R([s EXCEPT !.rw[t] = @ + 1], AfterLW(me, "ok"), "AcqW", 0)
        ELSE IF m = "try" THEN R(s, Fin(me, "fail"), "FailW", 2)      \* repaired F8 (try): fail without releasing anything
        ELSE R(s, [me EXCEPT !.pc = "UpRel", !.up = [n |-> s.ro[t], k |-> s.ro[t], res |-> "na"]], "UpgradeBegin", s.ro[t])
    ELSE IF OkWriter(s, t) THEN R([s EXCEPT !.rw[t] = 1], AfterLW(me, "ok"), "AcqW", 2)
    ELSE IF m = "try" THEN R(s, AfterLW(me, "fail"), "FailW", 0)
    ELSE R(ObtainWC([s EXCEPT !.waitW = Append(@, t)], t), [me EXCEPT !.pc = "WWait", !.mode = m], "QueueW", 0)

\* --- UnlockReadOnlyAux / UnlockReadWriteAux: the whole call is one critical section ----------------
UR(s, t) == LET s2 == [s EXCEPT !.ro[t] = @ - 1]
            IN IF s2.ro[t] = 0 /\ s2.rw[t] = 0 THEN MaybeNotify(s2) ELSE s2
UW(s, t) == LET s2 == [s EXCEPT !.rw[t] = @ - 1]
            IN IF TotalOf(s2) = 0
               THEN (IF s.ro[t] > 0 THEN NotifyAllReaders(s2) ELSE IF ExecOf(s2) = {} THEN NotifySome(s2) ELSE s2)
               ELSE s2

\* --- applying a result ---------------------------------------------------------------------------------
Apply(t, a, o, r) ==
    /\ ro' = r.s.ro /\ rw' = r.s.rw /\ waitR' = r.s.waitR /\ waitW' = r.s.waitW
    /\ pend' = r.s.pend /\ wcPool' = r.s.wcPool /\ overtook' = r.s.overtook
    /\ th' = [th EXCEPT ![t] = r.me]
    /\ last' = IF RECORD
               THEN [t |-> t, a |-> a, op |-> o, ev |-> r.ev, site |-> r.site,
                     ex |-> Cardinality(ExecOf(r.s)), wr |-> Cardinality(r.s.waitR), ww |-> Len(r.s.waitW),
                     pc |-> r.me.pc, res |-> r.me.res]
               ELSE last

\* --- actions ---------------------------------------------------------------------------------------------
CanCall(t, o) ==
    /\ o \in Ops
    /\ (o = "UR" => ro[t] > 0) /\ (o = "UW" => rw[t] > 0)
    /\ (o \in {"LR", "LRtry", "LRtimed"} => ro[t] < MaxRec)
    /\ (o \in {"LW", "LWtry", "LWtimed"} => rw[t] < MaxRec)

StartOp(t, o) ==
    /\ th[t].pc = "idle" /\ th[t].nops < MaxOps /\ CanCall(t, o)
    /\ LET me == [th[t] EXCEPT !.nops = @ + 1, !.snap = <<ro[t], rw[t]>>, !.op = o, !.opmode = ModeOf(o), !.res = "na", !.lop = o]
       IN CASE o \in {"LR", "LRtry", "LRtimed"} -> Apply(t, "Start", o, LREnter(Cur, t, me, ModeOf(o)))
            [] o \in {"LW", "LWtry", "LWtimed"} -> Apply(t, "Start", o, LWEnter(Cur, t, me, ModeOf(o)))
            [] o = "UR" -> Apply(t, "Start", o, R(UR(Cur, t), Fin(me, "ok"), "RelR", 0))
            [] o = "UW" -> Apply(t, "Start", o, R(UW(Cur, t), Fin(me, "ok"), "RelW", 0))

\* after MaxOps calls a thread releases what it still holds ("every holder eventually releases") 
Cleanup(t) ==
    /\ th[t].pc = "idle" /\ th[t].nops = MaxOps /\ ro[t] + rw[t] > 0
    /\ IF rw[t] > 0 THEN Apply(t, "Cleanup", "UW", R(UW(Cur, t), Fin([th[t] EXCEPT !.snap = <<ro[t], rw[t]>>, !.lop = "UW"], "ok"), "RelW", 0))
       ELSE Apply(t, "Cleanup", "UR", R(UR(Cur, t), Fin([th[t] EXCEPT !.snap = <<ro[t], rw[t]>>, !.lop = "UR"], "ok"), "RelR", 0))

\* WaitCondition::Wait() returns because a notification is pending (and flushes the count) ...
WaitOK(t) ==
    /\ th[t].pc \in {"RWait", "WWait"} /\ pend[t]
    /\ Apply(t, "WaitOK", th[t].op, R([Cur EXCEPT !.pend[t] = FALSE],
                                      [th[t] EXCEPT !.pc = IF th[t].pc = "RWait" THEN "RRecheck" ELSE "WRecheck"], "none", 0))
\* ... or because its deadline passed with nothing pending
WaitTimeout(t) ==
    /\ th[t].pc \in {"RWait", "WWait"} /\ th[t].mode = "timed" /\ ~pend[t]
    /\ Apply(t, "WaitTimeout", th[t].op, R(Cur, [th[t] EXCEPT !.pc = IF th[t].pc = "RWait" THEN "RTimeout" ELSE "WTimeout",
                                                              !.expired = TRUE], "none", 0))

RRecheck(t) ==
    /\ th[t].pc = "RRecheck"
    /\ IF OkReaders(Cur)
       THEN Apply(t, "RRecheck", th[t].op, R([Cur EXCEPT !.ro[t] = 1, !.waitR = @ \ {t}], Defer(AfterLR(th[t])), "AcqR", 1))
       ELSE Apply(t, "RRecheck", th[t].op, R(Cur, [th[t] EXCEPT !.pc = "RWait"], "RecheckR", 0))

RTimeout(t) ==
    /\ th[t].pc = "RTimeout"
    /\ Apply(t, "RTimeout", th[t].op, R(MaybeNotify([Cur EXCEPT !.waitR = @ \ {t}]), Defer(Fin(th[t], "fail")), "FailR", 1))

WRecheck(t) ==
    /\ th[t].pc = "WRecheck"
    /\ IF OkWriter(Cur, t)
       THEN Apply(t, "WRecheck", th[t].op, R([Cur EXCEPT !.rw[t] = 1, !.waitW = Remove(@, t)], Defer(AfterLW(th[t], "ok")), "AcqW", 1))
       ELSE Apply(t, "WRecheck", th[t].op, R(Cur, [th[t] EXCEPT !.pc = "WWait"], "RecheckW", 0))

WTimeout(t) ==
    /\ th[t].pc = "WTimeout"
    /\ Apply(t, "WTimeout", th[t].op, R(MaybeNotify([Cur EXCEPT !.waitW = Remove(@, t)]), Defer(AfterLW(th[t], "fail")), "FailW", 1))

\* the Lock*Aux call that waited returns: its wait-condition goes back to the pool, pending count and all
RelWC(t) ==
    /\ th[t].pc = "RelWC"
    /\ Apply(t, "RelWC", th[t].op, R(ReleaseWC(Cur, t), [th[t] EXCEPT !.pc = th[t].npc], "none", 0))

\* upgrade phase 1: UnlockReadOnly() x n
UpRel(t) ==
    /\ th[t].pc = "UpRel"
    /\ Apply(t, "UpRel", th[t].op, R(UR(Cur, t), IF th[t].up.k = 1 THEN [th[t] EXCEPT !.pc = "UpLW", !.up.k = 0]
                                                  ELSE [th[t] EXCEPT !.up.k = @ - 1], "RelR", 0))
\* upgrade phase 2: LockReadWriteAux(deadline) again, now holding nothing
UpLW(t) == th[t].pc = "UpLW" /\ Apply(t, "UpLW", th[t].op, LWEnter(Cur, t, th[t], th[t].opmode))
\* upgrade phase 3: LockReadOnly() x n, WITHOUT the deadline
UpRelock(t) == th[t].pc = "UpRelock" /\ Apply(t, "UpRelock", th[t].op, LREnter(Cur, t, th[t], "untimed"))

ThreadNext(t) == \/ \E o \in AllOps : StartOp(t, o)
                 \/ Cleanup(t) \/ WaitOK(t) \/ WaitTimeout(t)
                 \/ RRecheck(t) \/ RTimeout(t) \/ WRecheck(t) \/ WTimeout(t)
                 \/ UpRel(t) \/ UpLW(t) \/ UpRelock(t) \/ RelWC(t)
Next == \E t \in T : ThreadNext(t)

Spec     == Init /\ [][Next]_vars
FairSpec == Spec /\ \A t \in T : WF_vars(ThreadNext(t))

------------------------------------------------------------------------------
(* The property *)

TypeOK == /\ \A t \in T : ro[t] \in Nat /\ rw[t] \in Nat
          /\ waitR \subseteq T

\* a writer excludes everybody else; readers may share
Excl == \A a, b \in T : (a # b /\ rw[a] > 0) => (ro[b] = 0 /\ rw[b] = 0)

\* a thread that waits holds nothing; each table holds a thread at most once
Tables == /\ \A t \in waitR : ro[t] + rw[t] = 0 /\ th[t].pc \in {"RWait", "RRecheck", "RTimeout"}
          /\ \A i \in 1..Len(waitW) : ro[waitW[i]] + rw[waitW[i]] = 0 /\ th[waitW[i]].pc \in {"WWait", "WRecheck", "WTimeout"}
          /\ \A i, j \in 1..Len(waitW) : i # j => waitW[i] # waitW[j]

\* each successful acquire adds exactly one, each release removes exactly one, a failed call changes nothing
CountsExact ==
    \A t \in T : (th[t].pc = "idle" /\ th[t].res = "ok") =>
        CASE th[t].lop \in {"LR", "LRtry", "LRtimed"} -> <<ro[t], rw[t]>> = <<th[t].snap[1] + 1, th[t].snap[2]>>
          [] th[t].lop \in {"LW", "LWtry", "LWtimed"} -> <<ro[t], rw[t]>> = <<th[t].snap[1], th[t].snap[2] + 1>>
          [] th[t].lop = "UR" -> <<ro[t], rw[t]>> = <<th[t].snap[1] - 1, th[t].snap[2]>>
          [] th[t].lop = "UW" -> <<ro[t], rw[t]>> = <<th[t].snap[1], th[t].snap[2] - 1>>
          [] OTHER -> TRUE
FailLeavesStateUnchanged ==
    \A t \in T : (th[t].pc = "idle" /\ th[t].res = "fail") => <<ro[t], rw[t]>> = th[t].snap

\* a call whose deadline has passed (or that had none to spare: try) never blocks again.
\* F8timed: the restore phase of a timed upgrade re-locks without deadline (known finding) - excluded when listed.
DeadlineRespected ==
    \A t \in T : (th[t].expired /\ th[t].pc \in {"RWait", "WWait"}) =>
                     ("F8timed" \in Deviations /\ th[t].up # NoUp /\ th[t].pc = "RWait")
TryNeverWaits == \A t \in T : th[t].opmode = "try" => th[t].pc \notin {"RWait", "WWait", "RRecheck", "WRecheck", "UpRel", "UpLW", "UpRelock"}

NoOvertake == ~overtook

AllDone == \A t \in T : th[t].pc = "idle" /\ th[t].nops = MaxOps /\ ro[t] + rw[t] = 0
\* when everybody is done nothing is held, nobody waits
Quiescent == AllDone => (\A t \in T : ro[t] = 0 /\ rw[t] = 0) /\ waitR = {} /\ waitW = <<>>

Waiting(t) == th[t].pc \in {"RWait", "WWait"}
\* liveness: no waiting thread is stranded (all threads release everything in the end: Cleanup)
NoStrand == \A t \in T : Waiting(t) ~> ~Waiting(t)
Terminates == <>AllDone

=============================================================================
