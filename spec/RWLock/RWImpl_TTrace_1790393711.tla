---- MODULE RWImpl_TTrace_1790393711 ----
EXTENDS Sequences, TLCExt, Toolbox, Naturals, TLC, RWImpl

_expression ==
    LET RWImpl_TEExpression == INSTANCE RWImpl_TEExpression
    IN RWImpl_TEExpression!expression
----

_trace ==
    LET RWImpl_TETrace == INSTANCE RWImpl_TETrace
    IN RWImpl_TETrace!trace
----

_inv ==
    ~(
        TLCGet("level") = Len(_TETrace)
        /\
        wcPool = (<<>>)
        /\
        overtook = (FALSE)
        /\
        last = ([a |-> "Init"])
        /\
        th = (<<[res |-> "na", pc |-> "RWait", npc |-> "UpRelock", mode |-> "untimed", op |-> "LWtimed", opmode |-> "timed", up |-> [n |-> 1, k |-> 1, res |-> "fail"], expired |-> TRUE, snap |-> <<1, 0>>, nops |-> 2, lop |-> "LWtimed"], [res |-> "ok", pc |-> "idle", npc |-> "idle", mode |-> "none", op |-> "none", opmode |-> "none", up |-> [n |-> 0, k |-> 0, res |-> "na"], expired |-> FALSE, snap |-> <<1, 0>>, nops |-> 2, lop |-> "LW"]>>)
        /\
        rw = (<<0, 1>>)
        /\
        waitR = ({1})
        /\
        waitW = (<<>>)
        /\
        ro = (<<0, 1>>)
        /\
        pend = (<<FALSE, FALSE>>)
    )
----

_init ==
    /\ overtook = _TETrace[1].overtook
    /\ pend = _TETrace[1].pend
    /\ ro = _TETrace[1].ro
    /\ rw = _TETrace[1].rw
    /\ last = _TETrace[1].last
    /\ waitR = _TETrace[1].waitR
    /\ waitW = _TETrace[1].waitW
    /\ th = _TETrace[1].th
    /\ wcPool = _TETrace[1].wcPool
----

_next ==
    /\ \E i,j \in DOMAIN _TETrace:
        /\ \/ /\ j = i + 1
              /\ i = TLCGet("level")
        /\ overtook  = _TETrace[i].overtook
        /\ overtook' = _TETrace[j].overtook
        /\ pend  = _TETrace[i].pend
        /\ pend' = _TETrace[j].pend
        /\ ro  = _TETrace[i].ro
        /\ ro' = _TETrace[j].ro
        /\ rw  = _TETrace[i].rw
        /\ rw' = _TETrace[j].rw
        /\ last  = _TETrace[i].last
        /\ last' = _TETrace[j].last
        /\ waitR  = _TETrace[i].waitR
        /\ waitR' = _TETrace[j].waitR
        /\ waitW  = _TETrace[i].waitW
        /\ waitW' = _TETrace[j].waitW
        /\ th  = _TETrace[i].th
        /\ th' = _TETrace[j].th
        /\ wcPool  = _TETrace[i].wcPool
        /\ wcPool' = _TETrace[j].wcPool

\* Uncomment the ASSUME below to write the states of the error trace
\* to the given file in Json format. Note that you can pass any tuple
\* to `JsonSerialize`. For example, a sub-sequence of _TETrace.
    \* ASSUME
    \*     LET J == INSTANCE Json
    \*         IN J!JsonSerialize("RWImpl_TTrace_1790393711.json", _TETrace)

=============================================================================

 Note that you can extract this module `RWImpl_TEExpression`
  to a dedicated file to reuse `expression` (the module in the 
  dedicated `RWImpl_TEExpression.tla` file takes precedence 
  over the module `RWImpl_TEExpression` below).

---- MODULE RWImpl_TEExpression ----
EXTENDS Sequences, TLCExt, Toolbox, Naturals, TLC, RWImpl

expression == 
    [
        \* To hide variables of the `RWImpl` spec from the error trace,
        \* remove the variables below.  The trace will be written in the order
        \* of the fields of this record.
        overtook |-> overtook
        ,pend |-> pend
        ,ro |-> ro
        ,rw |-> rw
        ,last |-> last
        ,waitR |-> waitR
        ,waitW |-> waitW
        ,th |-> th
        ,wcPool |-> wcPool
        
        \* Put additional constant-, state-, and action-level expressions here:
        \* ,_stateNumber |-> _TEPosition
        \* ,_overtookUnchanged |-> overtook = overtook'
        
        \* Format the `overtook` variable as Json value.
        \* ,_overtookJson |->
        \*     LET J == INSTANCE Json
        \*     IN J!ToJson(overtook)
        
        \* Lastly, you may build expressions over arbitrary sets of states by
        \* leveraging the _TETrace operator.  For example, this is how to
        \* count the number of times a spec variable changed up to the current
        \* state in the trace.
        \* ,_overtookModCount |->
        \*     LET F[s \in DOMAIN _TETrace] ==
        \*         IF s = 1 THEN 0
        \*         ELSE IF _TETrace[s].overtook # _TETrace[s-1].overtook
        \*             THEN 1 + F[s-1] ELSE F[s-1]
        \*     IN F[_TEPosition - 1]
    ]

=============================================================================



Parsing and semantic processing can take forever if the trace below is long.
 In this case, it is advised to uncomment the module below to deserialize the
 trace from a generated binary file.

\*
\*---- MODULE RWImpl_TETrace ----
\*EXTENDS IOUtils, TLC, RWImpl
\*
\*trace == IODeserialize("RWImpl_TTrace_1790393711.bin", TRUE)
\*
\*=============================================================================
\*

---- MODULE RWImpl_TETrace ----
EXTENDS TLC, RWImpl

trace == 
    <<
    ([wcPool |-> <<>>,overtook |-> FALSE,last |-> [a |-> "Init"],th |-> <<[res |-> "na", pc |-> "idle", npc |-> "idle", mode |-> "none", op |-> "none", opmode |-> "none", up |-> [n |-> 0, k |-> 0, res |-> "na"], expired |-> FALSE, snap |-> <<0, 0>>, nops |-> 0, lop |-> "none"], [res |-> "na", pc |-> "idle", npc |-> "idle", mode |-> "none", op |-> "none", opmode |-> "none", up |-> [n |-> 0, k |-> 0, res |-> "na"], expired |-> FALSE, snap |-> <<0, 0>>, nops |-> 0, lop |-> "none"]>>,rw |-> <<0, 0>>,waitR |-> {},waitW |-> <<>>,ro |-> <<0, 0>>,pend |-> <<FALSE, FALSE>>]),
    ([wcPool |-> <<>>,overtook |-> FALSE,last |-> [a |-> "Init"],th |-> <<[res |-> "ok", pc |-> "idle", npc |-> "idle", mode |-> "none", op |-> "none", opmode |-> "none", up |-> [n |-> 0, k |-> 0, res |-> "na"], expired |-> FALSE, snap |-> <<0, 0>>, nops |-> 1, lop |-> "LR"], [res |-> "na", pc |-> "idle", npc |-> "idle", mode |-> "none", op |-> "none", opmode |-> "none", up |-> [n |-> 0, k |-> 0, res |-> "na"], expired |-> FALSE, snap |-> <<0, 0>>, nops |-> 0, lop |-> "none"]>>,rw |-> <<0, 0>>,waitR |-> {},waitW |-> <<>>,ro |-> <<1, 0>>,pend |-> <<FALSE, FALSE>>]),
    ([wcPool |-> <<>>,overtook |-> FALSE,last |-> [a |-> "Init"],th |-> <<[res |-> "ok", pc |-> "idle", npc |-> "idle", mode |-> "none", op |-> "none", opmode |-> "none", up |-> [n |-> 0, k |-> 0, res |-> "na"], expired |-> FALSE, snap |-> <<0, 0>>, nops |-> 1, lop |-> "LR"], [res |-> "ok", pc |-> "idle", npc |-> "idle", mode |-> "none", op |-> "none", opmode |-> "none", up |-> [n |-> 0, k |-> 0, res |-> "na"], expired |-> FALSE, snap |-> <<0, 0>>, nops |-> 1, lop |-> "LRtry"]>>,rw |-> <<0, 0>>,waitR |-> {},waitW |-> <<>>,ro |-> <<1, 1>>,pend |-> <<FALSE, FALSE>>]),
    ([wcPool |-> <<>>,overtook |-> FALSE,last |-> [a |-> "Init"],th |-> <<[res |-> "na", pc |-> "UpRel", npc |-> "idle", mode |-> "none", op |-> "LWtimed", opmode |-> "timed", up |-> [n |-> 1, k |-> 1, res |-> "na"], expired |-> FALSE, snap |-> <<1, 0>>, nops |-> 2, lop |-> "LWtimed"], [res |-> "ok", pc |-> "idle", npc |-> "idle", mode |-> "none", op |-> "none", opmode |-> "none", up |-> [n |-> 0, k |-> 0, res |-> "na"], expired |-> FALSE, snap |-> <<0, 0>>, nops |-> 1, lop |-> "LRtry"]>>,rw |-> <<0, 0>>,waitR |-> {},waitW |-> <<>>,ro |-> <<1, 1>>,pend |-> <<FALSE, FALSE>>]),
    ([wcPool |-> <<>>,overtook |-> FALSE,last |-> [a |-> "Init"],th |-> <<[res |-> "na", pc |-> "UpLW", npc |-> "idle", mode |-> "none", op |-> "LWtimed", opmode |-> "timed", up |-> [n |-> 1, k |-> 0, res |-> "na"], expired |-> FALSE, snap |-> <<1, 0>>, nops |-> 2, lop |-> "LWtimed"], [res |-> "ok", pc |-> "idle", npc |-> "idle", mode |-> "none", op |-> "none", opmode |-> "none", up |-> [n |-> 0, k |-> 0, res |-> "na"], expired |-> FALSE, snap |-> <<0, 0>>, nops |-> 1, lop |-> "LRtry"]>>,rw |-> <<0, 0>>,waitR |-> {},waitW |-> <<>>,ro |-> <<0, 1>>,pend |-> <<FALSE, FALSE>>]),
    ([wcPool |-> <<>>,overtook |-> FALSE,last |-> [a |-> "Init"],th |-> <<[res |-> "na", pc |-> "WWait", npc |-> "idle", mode |-> "timed", op |-> "LWtimed", opmode |-> "timed", up |-> [n |-> 1, k |-> 0, res |-> "na"], expired |-> FALSE, snap |-> <<1, 0>>, nops |-> 2, lop |-> "LWtimed"], [res |-> "ok", pc |-> "idle", npc |-> "idle", mode |-> "none", op |-> "none", opmode |-> "none", up |-> [n |-> 0, k |-> 0, res |-> "na"], expired |-> FALSE, snap |-> <<0, 0>>, nops |-> 1, lop |-> "LRtry"]>>,rw |-> <<0, 0>>,waitR |-> {},waitW |-> <<1>>,ro |-> <<0, 1>>,pend |-> <<FALSE, FALSE>>]),
    ([wcPool |-> <<>>,overtook |-> FALSE,last |-> [a |-> "Init"],th |-> <<[res |-> "na", pc |-> "WTimeout", npc |-> "idle", mode |-> "timed", op |-> "LWtimed", opmode |-> "timed", up |-> [n |-> 1, k |-> 0, res |-> "na"], expired |-> TRUE, snap |-> <<1, 0>>, nops |-> 2, lop |-> "LWtimed"], [res |-> "ok", pc |-> "idle", npc |-> "idle", mode |-> "none", op |-> "none", opmode |-> "none", up |-> [n |-> 0, k |-> 0, res |-> "na"], expired |-> FALSE, snap |-> <<0, 0>>, nops |-> 1, lop |-> "LRtry"]>>,rw |-> <<0, 0>>,waitR |-> {},waitW |-> <<1>>,ro |-> <<0, 1>>,pend |-> <<FALSE, FALSE>>]),
    ([wcPool |-> <<>>,overtook |-> FALSE,last |-> [a |-> "Init"],th |-> <<[res |-> "na", pc |-> "WTimeout", npc |-> "idle", mode |-> "timed", op |-> "LWtimed", opmode |-> "timed", up |-> [n |-> 1, k |-> 0, res |-> "na"], expired |-> TRUE, snap |-> <<1, 0>>, nops |-> 2, lop |-> "LWtimed"], [res |-> "ok", pc |-> "idle", npc |-> "idle", mode |-> "none", op |-> "none", opmode |-> "none", up |-> [n |-> 0, k |-> 0, res |-> "na"], expired |-> FALSE, snap |-> <<1, 0>>, nops |-> 2, lop |-> "LW"]>>,rw |-> <<0, 1>>,waitR |-> {},waitW |-> <<1>>,ro |-> <<0, 1>>,pend |-> <<FALSE, FALSE>>]),
    ([wcPool |-> <<>>,overtook |-> FALSE,last |-> [a |-> "Init"],th |-> <<[res |-> "na", pc |-> "RelWC", npc |-> "UpRelock", mode |-> "untimed", op |-> "LWtimed", opmode |-> "timed", up |-> [n |-> 1, k |-> 1, res |-> "fail"], expired |-> TRUE, snap |-> <<1, 0>>, nops |-> 2, lop |-> "LWtimed"], [res |-> "ok", pc |-> "idle", npc |-> "idle", mode |-> "none", op |-> "none", opmode |-> "none", up |-> [n |-> 0, k |-> 0, res |-> "na"], expired |-> FALSE, snap |-> <<1, 0>>, nops |-> 2, lop |-> "LW"]>>,rw |-> <<0, 1>>,waitR |-> {},waitW |-> <<>>,ro |-> <<0, 1>>,pend |-> <<FALSE, FALSE>>]),
    ([wcPool |-> <<FALSE>>,overtook |-> FALSE,last |-> [a |-> "Init"],th |-> <<[res |-> "na", pc |-> "UpRelock", npc |-> "UpRelock", mode |-> "untimed", op |-> "LWtimed", opmode |-> "timed", up |-> [n |-> 1, k |-> 1, res |-> "fail"], expired |-> TRUE, snap |-> <<1, 0>>, nops |-> 2, lop |-> "LWtimed"], [res |-> "ok", pc |-> "idle", npc |-> "idle", mode |-> "none", op |-> "none", opmode |-> "none", up |-> [n |-> 0, k |-> 0, res |-> "na"], expired |-> FALSE, snap |-> <<1, 0>>, nops |-> 2, lop |-> "LW"]>>,rw |-> <<0, 1>>,waitR |-> {},waitW |-> <<>>,ro |-> <<0, 1>>,pend |-> <<FALSE, FALSE>>]),
    ([wcPool |-> <<>>,overtook |-> FALSE,last |-> [a |-> "Init"],th |-> <<[res |-> "na", pc |-> "RWait", npc |-> "UpRelock", mode |-> "untimed", op |-> "LWtimed", opmode |-> "timed", up |-> [n |-> 1, k |-> 1, res |-> "fail"], expired |-> TRUE, snap |-> <<1, 0>>, nops |-> 2, lop |-> "LWtimed"], [res |-> "ok", pc |-> "idle", npc |-> "idle", mode |-> "none", op |-> "none", opmode |-> "none", up |-> [n |-> 0, k |-> 0, res |-> "na"], expired |-> FALSE, snap |-> <<1, 0>>, nops |-> 2, lop |-> "LW"]>>,rw |-> <<0, 1>>,waitR |-> {1},waitW |-> <<>>,ro |-> <<0, 1>>,pend |-> <<FALSE, FALSE>>])
    >>
----


=============================================================================

---- CONFIG RWImpl_TTrace_1790393711 ----
CONSTANTS
    T = { 1 , 2 }
    PreferWriters = FALSE
    MaxOps = 3
    MaxRec = 2
    Ops = { "LR" , "LRtry" , "LRtimed" , "LW" , "LWtry" , "LWtimed" , "UR" , "UW" }
    Deviations = { }
    RECORD = FALSE

INVARIANT
    _inv

CHECK_DEADLOCK
    \* CHECK_DEADLOCK off because of PROPERTY or INVARIANT above.
    FALSE

INIT
    _init

NEXT
    _next

CONSTANT
    _TETrace <- _trace

ALIAS
    _expression
=============================================================================
\* Generated on Sat Sep 26 03:35:15 UTC 2026