#include "util/RefCount.h"
#include "system/SetupSystem.h"
using namespace muscle;
static int destroyed = 0;
class Node : public RefCountable { public: Node(int i) : id(i) {} ~Node() {destroyed++; printf("~Node %d\n", id);} int id; Ref<Node> next; };
typedef Ref<Node> NodeRef;
int main() {
   CompleteSetupSystem css;
   NodeRef head(new Node(1)); head()->next.SetRef(new Node(2)); head()->next()->next.SetRef(new Node(3));
   head = head()->next;          // pop the first node
   printf("destroyed=%d head id=%d refcount=%u\n", destroyed, head()->id, (unsigned) head()->GetRefCount());
   return (destroyed == 1) ? 0 : 1;
}
